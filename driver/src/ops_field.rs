//! Field and integer-representation operations (C08, C09, C18, parts of C13/C15).

use crate::val::*;
use crate::Out;
use ff_zeroize::{Field, LegendreSymbol, PrimeField, PrimeFieldRepr, SqrtField};
use pairing_plus::bls12_381::{Fq, Fq12, Fq2, Fq6, FqRepr, Fr, FrRepr};
use pairing_plus::signum::{Sgn0Result, Signum0};
use std::cmp::Ordering;

fn ok1(v: Val) -> R<Out> {
    Ok(Out::Ok(vec![v]))
}
fn ord(o: Ordering) -> Val {
    Val::Int(match o {
        Ordering::Less => -1,
        Ordering::Equal => 0,
        Ordering::Greater => 1,
    })
}
fn leg(l: LegendreSymbol) -> Val {
    Val::Int(match l {
        LegendreSymbol::Zero => 0,
        LegendreSymbol::QuadraticResidue => 1,
        LegendreSymbol::QuadraticNonResidue => -1,
    })
}
fn sgn(s: Sgn0Result) -> Val {
    Val::Int(match s {
        Sgn0Result::NonNegative => 0,
        Sgn0Result::Negative => 1,
    })
}
fn arg(args: &[Val], i: usize) -> R<&Val> {
    args.get(i).ok_or_else(|| format!("missing argument {}", i))
}

/// Operations of the `Field` trait. Expanded twice per field type: once with method-call syntax on the
/// CONCRETE type (what a user and the crate's own curve code get: an inherent method of the same name would take
/// precedence) and once through the trait with a generic parameter (what generic code gets).
macro_rules! field_ops_body {
    ($F:ty, $name:expr, $args:expr, $get:expr, $wrap:expr) => {{
        let a = |i: usize| -> R<$F> { $get(arg($args, i)?) };
        let one = |v: $F| -> R<Option<Out>> { Ok(Some(Out::Ok(vec![$wrap(v)]))) };
        match $name {
            "zero" => one(<$F>::zero()),
            "one" => one(<$F>::one()),
            "add" => {
                let mut x = a(0)?;
                x.add_assign(&a(1)?);
                one(x)
            }
            "sub" => {
                let mut x = a(0)?;
                x.sub_assign(&a(1)?);
                one(x)
            }
            "mul" => {
                let mut x = a(0)?;
                x.mul_assign(&a(1)?);
                one(x)
            }
            "neg" => {
                let mut x = a(0)?;
                x.negate();
                one(x)
            }
            "dbl" => {
                let mut x = a(0)?;
                x.double();
                one(x)
            }
            "sqr" => {
                let mut x = a(0)?;
                x.square();
                one(x)
            }
            "inv" => Ok(Some(match a(0)?.inverse() {
                Some(v) => Out::Ok(vec![$wrap(v)]),
                None => Out::None,
            })),
            "frob" => {
                let mut x = a(0)?;
                let k = get_limbs(arg($args, 1)?)?;
                x.frobenius_map(k[0] as usize);
                one(x)
            }
            "pow" => {
                let x = a(0)?;
                let e = get_limbs(arg($args, 1)?)?;
                one(x.pow(&e[..]))
            }
            "is_zero" => Ok(Some(Out::Ok(vec![Val::Bool(a(0)?.is_zero())]))),
            "eq" => Ok(Some(Out::Ok(vec![Val::Bool(a(0)? == a(1)?)]))),
            "ne" => Ok(Some(Out::Ok(vec![Val::Bool(a(0)? != a(1)?)]))),
            _ => Ok(None),
        }
    }};
}

fn generic<F: Field>(name: &str, args: &[Val], get: fn(&Val) -> R<F>, wrap: fn(F) -> Val) -> R<Option<Out>> {
    field_ops_body!(F, name, args, get, wrap)
}

macro_rules! concrete_field {
    ($fname:ident, $F:ty, $get:ident, $wrap:path) => {
        fn $fname(name: &str, args: &[Val]) -> R<Option<Out>> {
            field_ops_body!($F, name, args, $get, $wrap)
        }
    };
}
concrete_field!(concrete_fq, Fq, get_fq, Val::Fq);
concrete_field!(concrete_fr, Fr, get_fr, Val::Fr);
concrete_field!(concrete_fq2, Fq2, get_fq2, Val::Fq2);
concrete_field!(concrete_fq6, Fq6, get_fq6, Val::Fq6);
concrete_field!(concrete_fq12, Fq12, get_fq12, Val::Fq12);

macro_rules! repr_ops_body {
    ($T:ty, $name:expr, $args:expr, $get:expr, $wrap:expr) => {{
    let a = |i: usize| -> R<$T> { $get(arg($args, i)?) };
    let n = |i: usize| -> R<i64> { get_int(arg($args, i)?) };
    match $name {
        "add_nocarry" => {
            let mut x = a(0)?;
            x.add_nocarry(&a(1)?);
            ok1($wrap(x))
        }
        "sub_noborrow" => {
            let mut x = a(0)?;
            x.sub_noborrow(&a(1)?);
            ok1($wrap(x))
        }
        "shr" => {
            let mut x = a(0)?;
            x.shr(n(1)? as u32);
            ok1($wrap(x))
        }
        "shl" => {
            let mut x = a(0)?;
            x.shl(n(1)? as u32);
            ok1($wrap(x))
        }
        "div2" => {
            let mut x = a(0)?;
            x.div2();
            ok1($wrap(x))
        }
        "mul2" => {
            let mut x = a(0)?;
            x.mul2();
            ok1($wrap(x))
        }
        "num_bits" => ok1(Val::Int(a(0)?.num_bits() as i64)),
        "is_zero" => ok1(Val::Bool(a(0)?.is_zero())),
        "is_odd" => ok1(Val::Bool(a(0)?.is_odd())),
        "is_even" => ok1(Val::Bool(a(0)?.is_even())),
        "cmp" => ok1(ord(a(0)?.cmp(&a(1)?))),
        "pcmp" => ok1(match a(0)?.partial_cmp(&a(1)?) { Some(o) => ord(o), None => Val::Int(2) }),
        "lt" => ok1(Val::Bool(a(0)? < a(1)?)),
        "gt" => ok1(Val::Bool(a(0)? > a(1)?)),
        "eq" => ok1(Val::Bool(a(0)? == a(1)?)),
        "ne" => ok1(Val::Bool(a(0)? != a(1)?)),
        "from_u64" => {
            let l = get_limbs(arg($args, 0)?)?;
            ok1($wrap(<$T>::from(l[0])))
        }
        "write_be" => {
            let mut v = vec![];
            a(0)?.write_be(&mut v).map_err(|e| e.to_string())?;
            ok1(Val::Bytes(v))
        }
        "write_le" => {
            let mut v = vec![];
            a(0)?.write_le(&mut v).map_err(|e| e.to_string())?;
            ok1(Val::Bytes(v))
        }
        "read_be" => {
            let b = get_bytes(arg($args, 0)?)?;
            let mut x = <$T>::default();
            match x.read_be(&b[..]) {
                Ok(()) => ok1($wrap(x)),
                Err(_) => Ok(Out::Err("io".into())),
            }
        }
        "read_le" => {
            let b = get_bytes(arg($args, 0)?)?;
            let mut x = <$T>::default();
            match x.read_le(&b[..]) {
                Ok(()) => ok1($wrap(x)),
                Err(_) => Ok(Out::Err("io".into())),
            }
        }
        _ => Err(format!("unknown repr op {}", $name)),
    }
    }};
}

fn repr_ops<T: PrimeFieldRepr>(name: &str, args: &[Val], get: fn(&Val) -> R<T>, wrap: fn(T) -> Val) -> R<Out> {
    repr_ops_body!(T, name, args, get, wrap)
}
fn repr_ops_fq(name: &str, args: &[Val]) -> R<Out> {
    repr_ops_body!(FqRepr, name, args, get_fqrepr, Val::FqRepr)
}
fn repr_ops_fr(name: &str, args: &[Val]) -> R<Out> {
    repr_ops_body!(FrRepr, name, args, get_frrepr, Val::FrRepr)
}

macro_rules! prime_ops {
    ($name:expr, $args:expr, $F:ty, $get:ident, $wrap:path, $getr:ident, $wrapr:path) => {{
        let a = |i: usize| -> R<$F> { $get(arg($args, i)?) };
        match $name {
            "cmp" => return ok1(ord(a(0)?.cmp(&a(1)?))),
            "pcmp" => return ok1(match a(0)?.partial_cmp(&a(1)?) { Some(o) => ord(o), None => Val::Int(2) }),
            "lt" => return ok1(Val::Bool(a(0)? < a(1)?)),
            "gt" => return ok1(Val::Bool(a(0)? > a(1)?)),
            "le" => return ok1(Val::Bool(a(0)? <= a(1)?)),
            "ge" => return ok1(Val::Bool(a(0)? >= a(1)?)),
            "max" => return ok1($wrap(::std::cmp::max(a(0)?, a(1)?))),
            "min" => return ok1($wrap(::std::cmp::min(a(0)?, a(1)?))),
            "clamp" => return ok1($wrap(a(0)?.clamp(a(1)?, a(2)?))),
            "from_repr" => {
                return Ok(match <$F>::from_repr($getr(arg($args, 0)?)?) {
                    Ok(v) => Out::Ok(vec![$wrap(v)]),
                    Err(_) => Out::Err("notinfield".into()),
                })
            }
            "into_repr" => return ok1($wrapr(a(0)?.into_repr())),
            "char" => return ok1($wrapr(<$F>::char())),
            "sqrt" => {
                return Ok(match a(0)?.sqrt() {
                    Some(v) => Out::Ok(vec![$wrap(v)]),
                    None => Out::None,
                })
            }
            "legendre" => return ok1(leg(a(0)?.legendre())),
            "mulgen" => return ok1($wrap(<$F>::multiplicative_generator())),
            "root_of_unity" => return ok1($wrap(<$F>::root_of_unity())),
            "consts" => {
                return Ok(Out::Ok(vec![
                    Val::Int(<$F>::NUM_BITS as i64),
                    Val::Int(<$F>::CAPACITY as i64),
                    Val::Int(<$F>::S as i64),
                ]))
            }
            _ => {}
        }
    }};
}

pub fn run(fam0: &str, name: &str, args: &[Val]) -> R<Out> {
    // family `Tfq`, `TQ`, ... = the same operation through the trait with a generic parameter
    let (via_trait, fam) = match fam0.strip_prefix('T') {
        Some(f) => (true, f),
        None => (false, fam0),
    };
    match fam {
        "Q" => return if via_trait { repr_ops::<FqRepr>(name, args, get_fqrepr, Val::FqRepr) } else { repr_ops_fq(name, args) },
        "R" => return if via_trait { repr_ops::<FrRepr>(name, args, get_frrepr, Val::FrRepr) } else { repr_ops_fr(name, args) },
        "fq" => {
            if let Some(o) = (if via_trait { generic::<Fq>(name, args, get_fq, Val::Fq)? } else { concrete_fq(name, args)? }) {
                return Ok(o);
            }
            prime_ops!(name, args, Fq, get_fq, Val::Fq, get_fqrepr, Val::FqRepr);
            match name {
                "sgn0" => return ok1(sgn(get_fq(arg(args, 0)?)?.sgn0())),
                "negate_if" => {
                    let mut x = get_fq(arg(args, 0)?)?;
                    let s = if get_int(arg(args, 1)?)? != 0 { Sgn0Result::Negative } else { Sgn0Result::NonNegative };
                    x.negate_if(s);
                    return ok1(Val::Fq(x));
                }
                _ => {}
            }
        }
        "fr" => {
            if let Some(o) = (if via_trait { generic::<Fr>(name, args, get_fr, Val::Fr)? } else { concrete_fr(name, args)? }) {
                return Ok(o);
            }
            prime_ops!(name, args, Fr, get_fr, Val::Fr, get_frrepr, Val::FrRepr);
        }
        "fq2" => {
            if let Some(o) = (if via_trait { generic::<Fq2>(name, args, get_fq2, Val::Fq2)? } else { concrete_fq2(name, args)? }) {
                return Ok(o);
            }
            let a = |i: usize| -> R<Fq2> { get_fq2(arg(args, i)?) };
            match name {
                "cmp" => return ok1(ord(a(0)?.cmp(&a(1)?))),
                "pcmp" => return ok1(match a(0)?.partial_cmp(&a(1)?) { Some(o) => ord(o), None => Val::Int(2) }),
                "lt" => return ok1(Val::Bool(a(0)? < a(1)?)),
                "gt" => return ok1(Val::Bool(a(0)? > a(1)?)),
                "le" => return ok1(Val::Bool(a(0)? <= a(1)?)),
                "ge" => return ok1(Val::Bool(a(0)? >= a(1)?)),
                "max" => return ok1(Val::Fq2(::std::cmp::max(a(0)?, a(1)?))),
                "min" => return ok1(Val::Fq2(::std::cmp::min(a(0)?, a(1)?))),
                "clamp" => return ok1(Val::Fq2(a(0)?.clamp(a(1)?, a(2)?))),
                "sqrt" => {
                    return Ok(match a(0)?.sqrt() {
                        Some(v) => Out::Ok(vec![Val::Fq2(v)]),
                        None => Out::None,
                    })
                }
                "legendre" => return ok1(leg(a(0)?.legendre())),
                "norm" => return ok1(Val::Fq(a(0)?.norm())),
                "mul_nr" => {
                    let mut x = a(0)?;
                    x.mul_by_nonresidue();
                    return ok1(Val::Fq2(x));
                }
                "sgn0" => return ok1(sgn(a(0)?.sgn0())),
                "negate_if" => {
                    let mut x = a(0)?;
                    let s = if get_int(arg(args, 1)?)? != 0 { Sgn0Result::Negative } else { Sgn0Result::NonNegative };
                    x.negate_if(s);
                    return ok1(Val::Fq2(x));
                }
                _ => {}
            }
        }
        "fq6" => {
            if let Some(o) = (if via_trait { generic::<Fq6>(name, args, get_fq6, Val::Fq6)? } else { concrete_fq6(name, args)? }) {
                return Ok(o);
            }
            let a = |i: usize| -> R<Fq6> { get_fq6(arg(args, i)?) };
            let b = |i: usize| -> R<Fq2> { get_fq2(arg(args, i)?) };
            match name {
                "mul_nr" => {
                    let mut x = a(0)?;
                    x.mul_by_nonresidue();
                    return ok1(Val::Fq6(x));
                }
                "mul_by_1" => {
                    let mut x = a(0)?;
                    x.mul_by_1(&b(1)?);
                    return ok1(Val::Fq6(x));
                }
                "mul_by_01" => {
                    let mut x = a(0)?;
                    x.mul_by_01(&b(1)?, &b(2)?);
                    return ok1(Val::Fq6(x));
                }
                _ => {}
            }
        }
        "fq12" => {
            if let Some(o) = (if via_trait { generic::<Fq12>(name, args, get_fq12, Val::Fq12)? } else { concrete_fq12(name, args)? }) {
                return Ok(o);
            }
            let a = |i: usize| -> R<Fq12> { get_fq12(arg(args, i)?) };
            let b = |i: usize| -> R<Fq2> { get_fq2(arg(args, i)?) };
            match name {
                "conj" => {
                    let mut x = a(0)?;
                    x.conjugate();
                    return ok1(Val::Fq12(x));
                }
                "mul_by_014" => {
                    let mut x = a(0)?;
                    x.mul_by_014(&b(1)?, &b(2)?, &b(3)?);
                    return ok1(Val::Fq12(x));
                }
                _ => {}
            }
        }
        _ => {}
    }
    Err(format!("unknown op {}.{}", fam, name))
}
