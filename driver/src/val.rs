//! Values crossing the driver boundary, their textual syntax, parsing and printing.
//! The driver has no arithmetic of its own: field elements go through
//! from_repr / into_repr, points through transmute constructors / as_tuple.

use ff_zeroize::{PrimeField, PrimeFieldRepr};
use pairing_plus::bls12_381::{
    transmute, Fq, Fq12, Fq2, Fq6, FqRepr, Fr, FrRepr, G1Affine, G1Prepared, G2Affine, G2Prepared,
    G1, G2,
};
use pairing_plus::{CurveAffine, CurveProjective};
use std::fmt::Write as _;
use std::sync::Arc;

#[derive(Clone)]
pub enum Val {
    Unit,
    Int(i64),
    Bool(bool),
    Bytes(Vec<u8>),
    Fq(Fq),
    Fr(Fr),
    FqRepr(FqRepr),
    FrRepr(FrRepr),
    Fq2(Fq2),
    Fq6(Fq6),
    Fq12(Fq12),
    G1(G1),
    G1A(G1Affine),
    G2(G2),
    G2A(G2Affine),
    Prep1(Arc<G1Prepared>),
    Prep2(Arc<G2Prepared>),
    Tab1(Arc<Vec<G1>>, usize),
    Tab2(Arc<Vec<G2>>, usize),
    Digits(Vec<i64>, usize),
    Limbs(Vec<u64>),
    Ctx(usize),
    List(Vec<Val>),
    Str(String),
}

pub type R<T> = Result<T, String>;

fn hexval(c: u8) -> R<u64> {
    match c {
        b'0'..=b'9' => Ok((c - b'0') as u64),
        b'a'..=b'f' => Ok((c - b'a' + 10) as u64),
        b'A'..=b'F' => Ok((c - b'A' + 10) as u64),
        _ => Err(format!("bad hex digit {:?}", c as char)),
    }
}

/// big-endian hex -> n little-endian 64-bit limbs
pub fn parse_limbs(s: &str, n: usize) -> R<Vec<u64>> {
    let b = s.as_bytes();
    if b.is_empty() || b.len() > 16 * n {
        return Err(format!("hex literal of {} digits does not fit {} limbs", b.len(), n));
    }
    let mut limbs = vec![0u64; n];
    for (i, c) in b.iter().rev().enumerate() {
        limbs[i / 16] |= hexval(*c)? << (4 * (i % 16));
    }
    Ok(limbs)
}

pub fn limbs_hex(l: &[u64]) -> String {
    let mut s = String::new();
    let mut started = false;
    for x in l.iter().rev() {
        if started {
            write!(s, "{:016x}", x).unwrap();
        } else if *x != 0 {
            write!(s, "{:x}", x).unwrap();
            started = true;
        }
    }
    if !started {
        s.push('0');
    }
    s
}

pub fn parse_bytes(s: &str) -> R<Vec<u8>> {
    let b = s.as_bytes();
    if b.len() % 2 != 0 {
        return Err("odd hex length".into());
    }
    let mut v = Vec::with_capacity(b.len() / 2);
    for i in 0..b.len() / 2 {
        v.push(((hexval(b[2 * i])? << 4) | hexval(b[2 * i + 1])?) as u8);
    }
    Ok(v)
}

pub fn bytes_hex(b: &[u8]) -> String {
    let mut s = String::with_capacity(b.len() * 2);
    for x in b {
        write!(s, "{:02x}", x).unwrap();
    }
    s
}

pub fn fqrepr(s: &str) -> R<FqRepr> {
    let l = parse_limbs(s, 6)?;
    Ok(FqRepr([l[0], l[1], l[2], l[3], l[4], l[5]]))
}
pub fn frrepr(s: &str) -> R<FrRepr> {
    let l = parse_limbs(s, 4)?;
    Ok(FrRepr([l[0], l[1], l[2], l[3]]))
}
pub fn fq(s: &str) -> R<Fq> {
    Fq::from_repr(fqrepr(s)?).map_err(|_| format!("script error: Fq literal {} not reduced", s))
}
pub fn fr(s: &str) -> R<Fr> {
    Fr::from_repr(frrepr(s)?).map_err(|_| format!("script error: Fr literal {} not reduced", s))
}
fn fqs(s: &str, n: usize) -> R<Vec<Fq>> {
    let v: Vec<&str> = s.split(',').collect();
    if v.len() != n {
        return Err(format!("expected {} coefficients, got {}", n, v.len()));
    }
    v.iter().map(|x| fq(x)).collect()
}
pub fn mk_fq2(c: &[Fq]) -> Fq2 {
    Fq2 { c0: c[0], c1: c[1] }
}
pub fn mk_fq6(c: &[Fq]) -> Fq6 {
    Fq6 { c0: mk_fq2(&c[0..2]), c1: mk_fq2(&c[2..4]), c2: mk_fq2(&c[4..6]) }
}
pub fn mk_fq12(c: &[Fq]) -> Fq12 {
    Fq12 { c0: mk_fq6(&c[0..6]), c1: mk_fq6(&c[6..12]) }
}

thread_local! {
    /// set when a field element was printed whose internal representation is not the canonical one, i.e. the
    /// library's own `==` says it differs from `from_repr(into_repr(x))`
    pub static NONCANON: std::cell::Cell<bool> = std::cell::Cell::new(false);
}

pub fn fq_hex(x: &Fq) -> String {
    let r = x.into_repr();
    match Fq::from_repr(r) {
        Ok(c) if c == *x => {}
        _ => NONCANON.with(|f| f.set(true)),
    }
    limbs_hex(r.as_ref())
}
pub fn fr_hex(x: &Fr) -> String {
    let r = x.into_repr();
    match Fr::from_repr(r) {
        Ok(c) if c == *x => {}
        _ => NONCANON.with(|f| f.set(true)),
    }
    limbs_hex(r.as_ref())
}
pub fn fq2_hex(x: &Fq2) -> String {
    format!("{},{}", fq_hex(&x.c0), fq_hex(&x.c1))
}
pub fn fq6_hex(x: &Fq6) -> String {
    format!("{},{},{}", fq2_hex(&x.c0), fq2_hex(&x.c1), fq2_hex(&x.c2))
}
pub fn fq12_hex(x: &Fq12) -> String {
    format!("{},{}", fq6_hex(&x.c0), fq6_hex(&x.c1))
}

fn flag(s: &str) -> R<bool> {
    match s {
        "0" => Ok(false),
        "1" => Ok(true),
        _ => Err(format!("bad flag {}", s)),
    }
}

/// Parse a literal token (not a register reference).
pub fn parse_literal(tok: &str) -> R<Val> {
    let (ty, body) = match tok.find(':') {
        Some(i) => (&tok[..i], &tok[i + 1..]),
        None => return Err(format!("token without type prefix: {}", tok)),
    };
    Ok(match ty {
        "n" => Val::Int(body.parse::<i64>().map_err(|e| format!("{}: {}", tok, e))?),
        "t" => Val::Bool(flag(body)?),
        "b" => Val::Bytes(parse_bytes(body)?),
        "s" => Val::Str(body.to_string()),
        "q" => Val::Fq(fq(body)?),
        "r" => Val::Fr(fr(body)?),
        "Q" => Val::FqRepr(fqrepr(body)?),
        "R" => Val::FrRepr(frrepr(body)?),
        "q2" => Val::Fq2(mk_fq2(&fqs(body, 2)?)),
        "q6" => Val::Fq6(mk_fq6(&fqs(body, 6)?)),
        "q12" => Val::Fq12(mk_fq12(&fqs(body, 12)?)),
        "w" => {
            // list of u64 limbs (little-endian limb order), possibly empty
            if body.is_empty() {
                Val::Limbs(vec![])
            } else {
                let mut v = vec![];
                for x in body.split(',') {
                    v.push(parse_limbs(x, 1)?[0]);
                }
                Val::Limbs(v)
            }
        }
        "p1" => {
            let c = fqs(body, 3)?;
            Val::G1(unsafe { transmute::g1_projective(c[0], c[1], c[2]) })
        }
        "a1" => {
            let v: Vec<&str> = body.split(',').collect();
            if v.len() != 3 {
                return Err("a1 needs x,y,inf".into());
            }
            Val::G1A(unsafe { transmute::g1_affine(fq(v[0])?, fq(v[1])?, flag(v[2])?) })
        }
        "p2" => {
            let c = fqs(body, 6)?;
            Val::G2(unsafe {
                transmute::g2_projective(mk_fq2(&c[0..2]), mk_fq2(&c[2..4]), mk_fq2(&c[4..6]))
            })
        }
        "a2" => {
            let v: Vec<&str> = body.split(',').collect();
            if v.len() != 5 {
                return Err("a2 needs x0,x1,y0,y1,inf".into());
            }
            let c: Vec<Fq> = v[..4].iter().map(|x| fq(x)).collect::<R<Vec<Fq>>>()?;
            Val::G2A(unsafe {
                transmute::g2_affine(mk_fq2(&c[0..2]), mk_fq2(&c[2..4]), flag(v[4])?)
            })
        }
        _ => return Err(format!("unknown literal type in {}", tok)),
    })
}

pub fn show(v: &Val, out: &mut String) {
    match v {
        Val::Unit => out.push_str("u:"),
        Val::Int(i) => write!(out, "n:{}", i).unwrap(),
        Val::Bool(b) => write!(out, "t:{}", *b as u8).unwrap(),
        Val::Bytes(b) => write!(out, "b:{}", bytes_hex(b)).unwrap(),
        Val::Str(s) => write!(out, "s:{}", s).unwrap(),
        Val::Fq(x) => write!(out, "q:{}", fq_hex(x)).unwrap(),
        Val::Fr(x) => write!(out, "r:{}", fr_hex(x)).unwrap(),
        Val::FqRepr(x) => write!(out, "Q:{}", limbs_hex(x.as_ref())).unwrap(),
        Val::FrRepr(x) => write!(out, "R:{}", limbs_hex(x.as_ref())).unwrap(),
        Val::Fq2(x) => write!(out, "q2:{}", fq2_hex(x)).unwrap(),
        Val::Fq6(x) => write!(out, "q6:{}", fq6_hex(x)).unwrap(),
        Val::Fq12(x) => write!(out, "q12:{}", fq12_hex(x)).unwrap(),
        Val::G1(p) => {
            let (x, y, z) = p.as_tuple();
            write!(out, "p1:{},{},{}", fq_hex(x), fq_hex(y), fq_hex(z)).unwrap()
        }
        Val::G1A(p) => {
            let (x, y) = p.as_tuple();
            write!(out, "a1:{},{},{}", fq_hex(x), fq_hex(y), p.is_zero() as u8).unwrap()
        }
        Val::G2(p) => {
            let (x, y, z) = p.as_tuple();
            write!(out, "p2:{},{},{}", fq2_hex(x), fq2_hex(y), fq2_hex(z)).unwrap()
        }
        Val::G2A(p) => {
            let (x, y) = p.as_tuple();
            write!(out, "a2:{},{},{}", fq2_hex(x), fq2_hex(y), p.is_zero() as u8).unwrap()
        }
        Val::Prep1(p) => write!(out, "P1:{}", p.is_zero() as u8).unwrap(),
        Val::Prep2(p) => write!(out, "P2:{}", p.is_zero() as u8).unwrap(),
        Val::Tab1(t, w) => {
            write!(out, "T1:{},{}", w, t.len()).unwrap();
        }
        Val::Tab2(t, w) => {
            write!(out, "T2:{},{}", w, t.len()).unwrap();
        }
        Val::Digits(d, w) => {
            write!(out, "D:{}", w).unwrap();
            for x in d {
                write!(out, ",{}", x).unwrap();
            }
        }
        Val::Limbs(l) => {
            out.push_str("w:");
            for (i, x) in l.iter().enumerate() {
                if i > 0 {
                    out.push(',');
                }
                write!(out, "{:x}", x).unwrap();
            }
        }
        Val::Ctx(i) => write!(out, "C:{}", i).unwrap(),
        Val::List(l) => {
            out.push_str("l:");
            for (i, x) in l.iter().enumerate() {
                if i > 0 {
                    out.push(';');
                }
                show(x, out);
            }
        }
    }
}

// ---- typed accessors -----------------------------------------------------

macro_rules! getter {
    ($name:ident, $variant:ident, $ty:ty) => {
        pub fn $name(v: &Val) -> R<$ty> {
            match v {
                Val::$variant(x) => Ok(x.clone()),
                _ => Err(format!("expected {} operand", stringify!($variant))),
            }
        }
    };
}
getter!(get_int, Int, i64);
getter!(get_bool, Bool, bool);
getter!(get_bytes, Bytes, Vec<u8>);
getter!(get_str, Str, String);
getter!(get_fq, Fq, Fq);
getter!(get_fr, Fr, Fr);
getter!(get_fqrepr, FqRepr, FqRepr);
getter!(get_frrepr, FrRepr, FrRepr);
getter!(get_fq2, Fq2, Fq2);
getter!(get_fq6, Fq6, Fq6);
getter!(get_fq12, Fq12, Fq12);
getter!(get_g1, G1, G1);
getter!(get_g1a, G1A, G1Affine);
getter!(get_g2, G2, G2);
getter!(get_g2a, G2A, G2Affine);
getter!(get_limbs, Limbs, Vec<u64>);
getter!(get_list, List, Vec<Val>);

pub fn repr_limbs4(r: &FrRepr) -> [u64; 4] {
    let a = r.as_ref();
    [a[0], a[1], a[2], a[3]]
}
