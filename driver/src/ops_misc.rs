//! Pairing, hashing to fields, stream (de)serialisation, addition chains.

use crate::ops_curve::{XmdSha224, XmdSha256, XmdSha384, XmdSha512, XmdSha512t224, XmdSha512t256, XofShake128, XofShake256};
use crate::val::*;
use crate::{Machine, Out};
use digest::generic_array::GenericArray;
use pairing_plus::bls12_381::verif::osswu_consts::{chain_p2m9div16, chain_pm3div4};
use pairing_plus::bls12_381::{Bls12, Fq, Fq12, Fq2, Fr, G1Affine, G1Prepared, G2Affine, G2Prepared, G1, G2};
use pairing_plus::hash_to_field::{hash_to_field, BaseFromRO, ExpandMsg, FromRO};
use pairing_plus::serdes::SerDes;
use pairing_plus::{CurveAffine, CurveProjective, Engine};
use std::io::{self, Read, Write};
use std::sync::Arc;

fn ok1(v: Val) -> R<Out> {
    Ok(Out::Ok(vec![v]))
}
fn arg(args: &[Val], i: usize) -> R<&Val> {
    args.get(i).ok_or_else(|| format!("missing argument {}", i))
}

/// A reader that hands out the data in chunks of at most `chunk` bytes, optionally
/// interleaves `ErrorKind::Interrupted`, optionally fails at byte offset `fail_at`,
/// and counts the bytes consumed.
pub struct ProbeReader {
    data: Vec<u8>,
    pos: usize,
    chunk: usize,
    interrupt: bool,
    toggle: bool,
    fail_at: i64,
    /// calls back into the library from inside read() (once), comparing with `nested_ref`
    reent: bool,
    /// panics instead of returning an error at `fail_at`
    panic_fail: bool,
    nested_ref: Vec<u8>,
    nested_bad: bool,
}
impl Read for ProbeReader {
    fn read(&mut self, buf: &mut [u8]) -> io::Result<usize> {
        if self.reent {
            self.reent = false;
            self.nested_bad = nested_calls() != self.nested_ref;
        }
        if self.interrupt {
            self.toggle = !self.toggle;
            if self.toggle {
                return Err(io::Error::new(io::ErrorKind::Interrupted, "injected interrupt"));
            }
        }
        if self.fail_at >= 0 && self.pos as i64 >= self.fail_at {
            if self.panic_fail {
                panic!("injected reader panic");
            }
            return Err(io::Error::new(io::ErrorKind::Other, "injected read fault"));
        }
        let mut n = buf.len().min(self.data.len() - self.pos);
        if self.chunk > 0 {
            n = n.min(self.chunk);
        }
        if self.fail_at >= 0 {
            n = n.min(self.fail_at as usize - self.pos);
        }
        buf[..n].copy_from_slice(&self.data[self.pos..self.pos + n]);
        self.pos += n;
        Ok(n)
    }
}

/// A writer that accepts at most `chunk` bytes per call and fails once `fail_at` bytes were written.
pub struct ProbeWriter {
    pub data: Vec<u8>,
    chunk: usize,
    fail_at: i64,
    toggle: bool,
    reent: bool,
    panic_fail: bool,
    nested_ref: Vec<u8>,
    nested_bad: bool,
}

/// Library calls made from inside a caller-supplied reader / writer (the library must not hold anything across the
/// calls it makes into caller code): serialisation and deserialisation of fixed values of every SerDes type.
fn nested_calls() -> Vec<u8> {
    let mut v: Vec<u8> = vec![];
    let one12 = <Fq12 as ff_zeroize::Field>::one();
    let _ = one12.serialize(&mut v, true);
    let _ = <Fr as ff_zeroize::Field>::one().serialize(&mut v, true);
    let _ = <G1 as pairing_plus::CurveProjective>::one().serialize(&mut v, true);
    let _ = <G2Affine as CurveAffine>::one().serialize(&mut v, false);
    {
        let mut r = &v[..];
        let a = Fq12::deserialize(&mut r, true).map(|x| x == one12).unwrap_or(false);
        let b = Fr::deserialize(&mut r, true).is_ok();
        let c = G1::deserialize(&mut r, true).is_ok();
        let d = G2Affine::deserialize(&mut r, false).is_ok();
        v.extend_from_slice(&[a as u8, b as u8, c as u8, d as u8, r.len() as u8]);
    }
    v
}

impl Write for ProbeWriter {
    fn write(&mut self, buf: &[u8]) -> io::Result<usize> {
        if self.reent {
            self.reent = false;
            self.nested_bad = nested_calls() != self.nested_ref;
        }
        // chunk sizes >= 1000 select the "interrupting" writer: every other call reports ErrorKind::Interrupted
        // (a transient condition that write_all retries), the remaining calls accept chunk - 1000 bytes (0 = all)
        if self.chunk >= 1000 {
            self.toggle = !self.toggle;
            if self.toggle {
                return Err(io::Error::new(io::ErrorKind::Interrupted, "injected interrupt"));
            }
        }
        if self.fail_at >= 0 && self.data.len() as i64 >= self.fail_at {
            if self.panic_fail {
                panic!("injected writer panic");
            }
            return Err(io::Error::new(io::ErrorKind::Other, "injected write fault"));
        }
        let mut n = buf.len();
        let c = if self.chunk >= 1000 { self.chunk - 1000 } else { self.chunk };
        if c > 0 {
            n = n.min(c);
        }
        if self.fail_at >= 0 {
            n = n.min(self.fail_at as usize - self.data.len());
        }
        self.data.extend_from_slice(&buf[..n]);
        Ok(n)
    }
    fn flush(&mut self) -> io::Result<()> {
        Ok(())
    }
}

fn ser<T: SerDes>(v: &T, compressed: bool, chunk: usize, fail_at: i64) -> Out {
    // chunk codes: +2000 = the writer calls back into the library on its first call, +4000 = it panics (instead of
    // failing) at fail_at; the remainder is the plain chunk code
    let panic_fail = chunk >= 4000;
    let chunk = chunk % 4000;
    let reent = chunk >= 2000;
    let chunk = chunk % 2000;
    let nested_ref = if reent { nested_calls() } else { vec![] };
    let mut w = ProbeWriter { data: vec![], chunk, fail_at, toggle: false, reent, panic_fail, nested_ref, nested_bad: false };
    match v.serialize(&mut w, compressed) {
        Ok(()) if w.nested_bad => Out::Err("nested-calls-differ".into()),
        Ok(()) => Out::Ok(vec![Val::Bytes(w.data)]),
        Err(_) => Out::Err(format!("io:{}", w.data.len())),
    }
}

fn deser<T: SerDes>(
    data: Vec<u8>,
    compressed: bool,
    mode: i64,
    fail_at: i64,
    wrap: fn(T) -> Val,
) -> Out {
    let mut r = ProbeReader {
        data,
        pos: 0,
        chunk: if mode & 1 != 0 { 1 } else if mode & 4 != 0 { 7 } else { 0 },
        interrupt: mode & 2 != 0,
        toggle: false,
        fail_at,
        reent: mode & 8 != 0,
        panic_fail: mode & 16 != 0,
        nested_ref: if mode & 8 != 0 { nested_calls() } else { vec![] },
        nested_bad: false,
    };
    match T::deserialize(&mut r, compressed) {
        Ok(_) if r.nested_bad => Out::Err("nested-calls-differ:0".into()),
        Ok(v) => Out::Ok(vec![wrap(v), Val::Int(r.pos as i64)]),
        Err(e) => Out::Err(format!("{:?}:{}", e.kind(), r.pos)),
    }
}

fn expand(x: &str, msg: &[u8], dst: &[u8], len: usize) -> R<Vec<u8>> {
    Ok(match x {
        "sha256" => XmdSha256::expand_message(msg, dst, len),
        "sha512" => XmdSha512::expand_message(msg, dst, len),
        "sha224" => XmdSha224::expand_message(msg, dst, len),
        "sha384" => XmdSha384::expand_message(msg, dst, len),
        "sha512_224" => XmdSha512t224::expand_message(msg, dst, len),
        "sha512_256" => XmdSha512t256::expand_message(msg, dst, len),
        "shake128" => XofShake128::expand_message(msg, dst, len),
        "shake256" => XofShake256::expand_message(msg, dst, len),
        _ => return Err("unknown expander".into()),
    })
}

fn h2f<T: FromRO>(x: &str, msg: &[u8], dst: &[u8], count: usize, wrap: fn(T) -> Val) -> R<Out> {
    let v: Vec<T> = match x {
        "sha256" => hash_to_field::<T, XmdSha256>(msg, dst, count),
        "sha512" => hash_to_field::<T, XmdSha512>(msg, dst, count),
        "sha224" => hash_to_field::<T, XmdSha224>(msg, dst, count),
        "sha384" => hash_to_field::<T, XmdSha384>(msg, dst, count),
        "sha512_224" => hash_to_field::<T, XmdSha512t224>(msg, dst, count),
        "sha512_256" => hash_to_field::<T, XmdSha512t256>(msg, dst, count),
        "shake128" => hash_to_field::<T, XofShake128>(msg, dst, count),
        "shake256" => hash_to_field::<T, XofShake256>(msg, dst, count),
        _ => return Err("unknown expander".into()),
    };
    ok1(Val::List(v.into_iter().map(wrap).collect()))
}

/// Caller-defined point types for the generic parameters of Engine::pairing / pairing_product (G1: Into<G1Affine>,
/// G2: Into<G2Affine>): the conversion is caller code running inside the library call. Mode 1 evaluates pairings of
/// its own inside the conversion and checks them; mode 2 panics.
pub struct ReG1(pub G1Affine, pub i64);
pub struct ReG2(pub G2Affine, pub i64);

fn nested_pairings(mode: i64) {
    if mode == 2 {
        panic!("injected conversion panic");
    }
    if mode == 1 {
        let a = G1Affine::one();
        let b = G2Affine::one();
        let mut a2 = a.into_projective();
        a2.double();
        let e = Bls12::pairing(a, b);
        let e2 = Bls12::pairing(a2.into_affine(), b);
        let mut sq = e;
        ff_zeroize::Field::square(&mut sq);
        assert!(e2 == sq, "nested pairing: e(2P,Q) != e(P,Q)^2");
        let mut na = a;
        na.negate();
        let one = Bls12::pairing_product(a, b, na, b);
        assert!(one == <Fq12 as ff_zeroize::Field>::one(), "nested pairing_product: e(P,Q) e(-P,Q) != 1");
    }
}

impl From<ReG1> for G1Affine {
    fn from(r: ReG1) -> G1Affine {
        nested_pairings(r.1);
        r.0
    }
}
impl From<ReG2> for G2Affine {
    fn from(r: ReG2) -> G2Affine {
        nested_pairings(r.1);
        r.0
    }
}

pub fn run(_m: &mut Machine, op: &str, args: &[Val]) -> R<Out> {
    let n = |i: usize| -> R<i64> { get_int(arg(args, i)?) };
    match op {
        // ---------------------------------------------------------------- pairings (C03, C11, C12)
        "pairing" => ok1(Val::Fq12(Bls12::pairing(get_g1a(arg(args, 0)?)?, get_g2a(arg(args, 1)?)?))),
        "pairing_p" => ok1(Val::Fq12(Bls12::pairing(get_g1(arg(args, 0)?)?, get_g2(arg(args, 1)?)?))),
        "pair_with_12" => ok1(Val::Fq12(get_g1a(arg(args, 0)?)?.pairing_with(&get_g2a(arg(args, 1)?)?))),
        "pair_with_21" => ok1(Val::Fq12(get_g2a(arg(args, 0)?)?.pairing_with(&get_g1a(arg(args, 1)?)?))),
        "prepare1" => ok1(Val::Prep1(Arc::new(get_g1a(arg(args, 0)?)?.prepare()))),
        "prepare2" => ok1(Val::Prep2(Arc::new(get_g2a(arg(args, 0)?)?.prepare()))),
        "prepare1_from" => ok1(Val::Prep1(Arc::new(G1Prepared::from_affine(get_g1a(arg(args, 0)?)?)))),
        "prepare2_from" => ok1(Val::Prep2(Arc::new(G2Prepared::from_affine(get_g2a(arg(args, 0)?)?)))),
        "miller" => {
            // l:P1;Q2;P1;Q2;...  prepared elements, alternating
            let l = get_list(arg(args, 0)?)?;
            if l.len() % 2 != 0 {
                return Err("miller needs pairs".into());
            }
            let mut ps: Vec<&G1Prepared> = vec![];
            let mut qs: Vec<&G2Prepared> = vec![];
            // mode + 16: every list entry gets an object of its own (clones); otherwise entries that name the same
            // register refer to ONE object - the result must not depend on which entries alias
            let unalias = args.len() > 1 && n(1)? & 16 != 0;
            let mut own1: Vec<Box<G1Prepared>> = vec![];
            let mut own2: Vec<Box<G2Prepared>> = vec![];
            if unalias {
                for i in 0..l.len() / 2 {
                    match (&l[2 * i], &l[2 * i + 1]) {
                        (Val::Prep1(p), Val::Prep2(q)) => {
                            own1.push(Box::new((**p).clone()));
                            own2.push(Box::new((**q).clone()));
                        }
                        _ => return Err("miller needs (Prep1, Prep2) pairs".into()),
                    }
                }
            }
            for i in 0..l.len() / 2 {
                match (&l[2 * i], &l[2 * i + 1]) {
                    (Val::Prep1(p), Val::Prep2(q)) => {
                        if unalias {
                            ps.push(&*own1[i]);
                            qs.push(&*own2[i]);
                        } else {
                            ps.push(&**p);
                            qs.push(&**q);
                        }
                    }
                    _ => return Err("miller needs (Prep1, Prep2) pairs".into()),
                }
            }
            let pairs: Vec<(&G1Prepared, &G2Prepared)> = ps.into_iter().zip(qs.into_iter()).collect();
            // optional second argument: the kind of iterator handed to the generic entry point
            let mode = if args.len() > 1 { n(1)? & 15 } else { 0 };
            let half = pairs.len() / 2;
            ok1(Val::Fq12(match mode {
                0 => Bls12::miller_loop(pairs.iter()),
                1 => Bls12::miller_loop(&pairs),
                2 => Bls12::miller_loop(pairs.iter().filter(|_| true)),
                3 => Bls12::miller_loop(LooseIter { inner: pairs.iter(), upper: None }),
                4 => Bls12::miller_loop(LooseIter { inner: pairs.iter(), upper: Some(pairs.len() + 7) }),
                5 => Bls12::miller_loop(pairs[..half].iter().chain(pairs[half..].iter())),
                6 => {
                    let dq: std::collections::VecDeque<&(&G1Prepared, &G2Prepared)> = pairs.iter().collect();
                    Bls12::miller_loop(dq.into_iter())
                }
                7 => {
                    let mut it = pairs.iter();
                    Bls12::miller_loop(std::iter::from_fn(move || it.next()))
                }
                8 => Bls12::miller_loop(pairs.iter().skip_while(|_| false).take(pairs.len() + 3)),
                _ => return Err("miller: iterator mode 0..8".into()),
            }))
        }
        // a prepared slot overwritten in place (Clone::clone_from) with another prepared element
        "prepare2_into" => match (arg(args, 0)?, arg(args, 1)?) {
            (Val::Prep2(slot), Val::Prep2(src)) => {
                let mut d: G2Prepared = (**slot).clone();
                d.clone_from(&**src);
                ok1(Val::Prep2(Arc::new(d)))
            }
            _ => Err("prepare2_into needs (Prep2, Prep2)".into()),
        },
        "prepare1_into" => match (arg(args, 0)?, arg(args, 1)?) {
            (Val::Prep1(slot), Val::Prep1(src)) => {
                let mut d: G1Prepared = (**slot).clone();
                d.clone_from(&**src);
                ok1(Val::Prep1(Arc::new(d)))
            }
            _ => Err("prepare1_into needs (Prep1, Prep1)".into()),
        },
        "final_exp" => Ok(match Bls12::final_exponentiation(&get_fq12(arg(args, 0)?)?) {
            Some(v) => Out::Ok(vec![Val::Fq12(v)]),
            None => Out::None,
        }),
        "pairing_re" => {
            let md = n(2)?;
            ok1(Val::Fq12(Bls12::pairing(ReG1(get_g1a(arg(args, 0)?)?, md), ReG2(get_g2a(arg(args, 1)?)?, md))))
        }
        "pairing_product_re" => {
            let md = n(4)?;
            ok1(Val::Fq12(Bls12::pairing_product(
                ReG1(get_g1a(arg(args, 0)?)?, md),
                ReG2(get_g2a(arg(args, 1)?)?, if md == 2 { 0 } else { md }),
                ReG1(get_g1a(arg(args, 2)?)?, 0),
                ReG2(get_g2a(arg(args, 3)?)?, md),
            )))
        }
        "pairing_product" => ok1(Val::Fq12(Bls12::pairing_product(
            get_g1a(arg(args, 0)?)?,
            get_g2a(arg(args, 1)?)?,
            get_g1a(arg(args, 2)?)?,
            get_g2a(arg(args, 3)?)?,
        ))),
        "pairing_multi" => {
            let p: Vec<G1Affine> = get_list(arg(args, 0)?)?.iter().map(get_g1a).collect::<R<Vec<_>>>()?;
            let q: Vec<G2Affine> = get_list(arg(args, 1)?)?.iter().map(get_g2a).collect::<R<Vec<_>>>()?;
            ok1(Val::Fq12(Bls12::pairing_multi_product(&p, &q)))
        }
        // ---------------------------------------------------------------- expand_message / hash_to_field (C13)
        "expand" => {
            let x = get_str(arg(args, 0)?)?;
            let msg = get_bytes(arg(args, 1)?)?;
            let dst = get_bytes(arg(args, 2)?)?;
            ok1(Val::Bytes(expand(&x, &msg, &dst, n(3)? as usize)?))
        }
        "h2f" => {
            let f = get_str(arg(args, 0)?)?;
            let x = get_str(arg(args, 1)?)?;
            let msg = get_bytes(arg(args, 2)?)?;
            let dst = get_bytes(arg(args, 3)?)?;
            let count = n(4)? as usize;
            match f.as_str() {
                "fq" => h2f::<Fq>(&x, &msg, &dst, count, Val::Fq),
                "fr" => h2f::<Fr>(&x, &msg, &dst, count, Val::Fr),
                "fq2" => h2f::<Fq2>(&x, &msg, &dst, count, Val::Fq2),
                _ => Err("unknown field".into()),
            }
        }
        "from_okm" | "from_ro" => {
            let f = get_str(arg(args, 0)?)?;
            let b = get_bytes(arg(args, 1)?)?;
            let want = match f.as_str() { "fq" => 64, "fr" => 48, "fq2" => 128, _ => 0 };
            if b.len() != want {
                return Err(format!("{} needs {} bytes", f, want));
            }
            let ro = op == "from_ro";
            match f.as_str() {
                "fq" => {
                    let g = GenericArray::from_slice(&b);
                    ok1(Val::Fq(if ro { <Fq as FromRO>::from_ro(g) } else { <Fq as BaseFromRO>::from_okm(g) }))
                }
                "fr" => {
                    let g = GenericArray::from_slice(&b);
                    ok1(Val::Fr(if ro { <Fr as FromRO>::from_ro(g) } else { <Fr as BaseFromRO>::from_okm(g) }))
                }
                "fq2" => ok1(Val::Fq2(<Fq2 as FromRO>::from_ro(GenericArray::from_slice(&b)))),
                _ => Err("unknown field".into()),
            }
        }
        // ---------------------------------------------------------------- addition chains (C15)
        "chain_pm3div4" => {
            let x = get_fq(arg(args, 0)?)?;
            let mut out = x;
            chain_pm3div4(&mut out, &x);
            ok1(Val::Fq(out))
        }
        "chain_p2m9div16" => {
            let x = get_fq2(arg(args, 0)?)?;
            let mut out = x;
            chain_p2m9div16(&mut out, &x);
            ok1(Val::Fq2(out))
        }
        // ---------------------------------------------------------------- SerDes (C19)
        // ser <value> t:compressed n:chunk n:fail_at
        "ser" => {
            let c = get_bool(arg(args, 1)?)?;
            let chunk = n(2)? as usize;
            let fail = n(3)?;
            Ok(match arg(args, 0)? {
                Val::Fr(v) => ser(v, c, chunk, fail),
                Val::Fq12(v) => ser(v, c, chunk, fail),
                Val::G1(v) => ser(v, c, chunk, fail),
                Val::G2(v) => ser(v, c, chunk, fail),
                Val::G1A(v) => ser(v, c, chunk, fail),
                Val::G2A(v) => ser(v, c, chunk, fail),
                _ => return Err("type has no SerDes".into()),
            })
        }
        // deser s:<type> b:bytes t:compressed n:mode n:fail_at
        "deser" => {
            let ty = get_str(arg(args, 0)?)?;
            let b = get_bytes(arg(args, 1)?)?;
            let c = get_bool(arg(args, 2)?)?;
            let mode = n(3)?;
            let fail = n(4)?;
            Ok(match ty.as_str() {
                "fr" => deser::<Fr>(b, c, mode, fail, Val::Fr),
                "fq12" => deser::<Fq12>(b, c, mode, fail, Val::Fq12),
                "g1" => deser::<G1>(b, c, mode, fail, Val::G1),
                "g2" => deser::<G2>(b, c, mode, fail, Val::G2),
                "g1a" => deser::<G1Affine>(b, c, mode, fail, Val::G1A),
                "g2a" => deser::<G2Affine>(b, c, mode, fail, Val::G2A),
                _ => return Err("unknown SerDes type".into()),
            })
        }
        "nop" => Ok(Out::Ok(vec![])),
        _ => Err(format!("unknown op {}", op)),
    }
}


/// An iterator whose size_hint is legal but uninformative (lower bound 0).
struct LooseIter<I> {
    inner: I,
    upper: Option<usize>,
}

impl<I: Iterator> Iterator for LooseIter<I> {
    type Item = I::Item;
    fn next(&mut self) -> Option<I::Item> {
        self.inner.next()
    }
    fn size_hint(&self) -> (usize, Option<usize>) {
        (0, self.upper)
    }
}
