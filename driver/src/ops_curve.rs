//! Curve-group operations, generic over G1 / G2.

use crate::val::*;
use crate::{Machine, Out};
use ff_zeroize::Field;
use pairing_plus::bls12_381::verif::{ClearH, IsogenyMap, OSSWUMap};
use pairing_plus::bls12_381::{
    Fq, Fq2, FrRepr, G1Affine, G1Compressed, G1Uncompressed, G2Affine, G2Compressed,
    G2Uncompressed, G1, G2,
};
use pairing_plus::hash_to_curve::HashToCurve;
use pairing_plus::hash_to_field::{ExpandMsgXmd, ExpandMsgXof};
use pairing_plus::map_to_curve::MapToCurve;
use pairing_plus::verif_wnaf;
use pairing_plus::{CurveAffine, CurveProjective, EncodedPoint, GroupDecodingError, SubgroupCheck, Wnaf};
use rand_core::SeedableRng;
use std::sync::Arc;

pub type XmdSha256 = ExpandMsgXmd<sha2::Sha256>;
pub type XmdSha512 = ExpandMsgXmd<sha2::Sha512>;
pub type XmdSha224 = ExpandMsgXmd<sha2::Sha224>;
pub type XmdSha384 = ExpandMsgXmd<sha2::Sha384>;
pub type XmdSha512t224 = ExpandMsgXmd<sha2::Sha512Trunc224>;
pub type XmdSha512t256 = ExpandMsgXmd<sha2::Sha512Trunc256>;
pub type XofShake128 = ExpandMsgXof<sha3::Shake128>;
pub type XofShake256 = ExpandMsgXof<sha3::Shake256>;

pub trait Grp: 'static {
    type P: CurveProjective<Affine = Self::A, Base = Self::B, Scalar = pairing_plus::bls12_381::Fr>
        + ClearH
        + IsogenyMap
        + OSSWUMap
        + MapToCurve<Self::P>
        + HashToCurve<XmdSha256>
        + HashToCurve<XmdSha512>
        + HashToCurve<XofShake128>
        + HashToCurve<XofShake256>
        + From<Self::A>;
    type A: CurveAffine<
            Projective = Self::P,
            Base = Self::B,
            Scalar = pairing_plus::bls12_381::Fr,
            Compressed = Self::C,
            Uncompressed = Self::U,
        > + SubgroupCheck
        + From<Self::P>;
    type B: Field;
    type C: EncodedPoint<Affine = Self::A>;
    type U: EncodedPoint<Affine = Self::A>;
    fn wp(p: Self::P) -> Val;
    fn wa(a: Self::A) -> Val;
    fn wb(b: Self::B) -> Val;
    fn gp(v: &Val) -> R<Self::P>;
    fn ga(v: &Val) -> R<Self::A>;
    fn gb(v: &Val) -> R<Self::B>;
    fn wtab(t: Arc<Vec<Self::P>>, w: usize) -> Val;
    fn gtab(v: &Val) -> R<(Arc<Vec<Self::P>>, usize)>;
    fn ctxs(m: &mut Machine) -> &mut Vec<Wnaf<(), Vec<Self::P>, Vec<i64>>>;
    fn iso_tables() -> Vec<Val>;
    fn osswu_consts() -> Vec<Val>;
}

pub struct G1Grp;
pub struct G2Grp;

impl Grp for G1Grp {
    type P = G1;
    type A = G1Affine;
    type B = Fq;
    type C = G1Compressed;
    type U = G1Uncompressed;
    fn wp(p: G1) -> Val { Val::G1(p) }
    fn wa(a: G1Affine) -> Val { Val::G1A(a) }
    fn wb(b: Fq) -> Val { Val::Fq(b) }
    fn gp(v: &Val) -> R<G1> { get_g1(v) }
    fn ga(v: &Val) -> R<G1Affine> { get_g1a(v) }
    fn gb(v: &Val) -> R<Fq> { get_fq(v) }
    fn wtab(t: Arc<Vec<G1>>, w: usize) -> Val { Val::Tab1(t, w) }
    fn gtab(v: &Val) -> R<(Arc<Vec<G1>>, usize)> {
        match v { Val::Tab1(t, w) => Ok((t.clone(), *w)), _ => Err("expected G1 wNAF table".into()) }
    }
    fn ctxs(m: &mut Machine) -> &mut Vec<Wnaf<(), Vec<G1>, Vec<i64>>> { &mut m.ctxs.w1 }
    fn iso_tables() -> Vec<Val> {
        pairing_plus::bls12_381::verif::isogeny_tables::g1()
            .iter()
            .map(|t| Val::List(t.iter().map(|c| Val::Fq(*c)).collect()))
            .collect()
    }
    fn osswu_consts() -> Vec<Val> {
        let (a, b, z) = pairing_plus::bls12_381::verif::osswu_consts::g1();
        vec![Val::Fq(a), Val::Fq(b), Val::Fq(z)]
    }
}

impl Grp for G2Grp {
    type P = G2;
    type A = G2Affine;
    type B = Fq2;
    type C = G2Compressed;
    type U = G2Uncompressed;
    fn wp(p: G2) -> Val { Val::G2(p) }
    fn wa(a: G2Affine) -> Val { Val::G2A(a) }
    fn wb(b: Fq2) -> Val { Val::Fq2(b) }
    fn gp(v: &Val) -> R<G2> { get_g2(v) }
    fn ga(v: &Val) -> R<G2Affine> { get_g2a(v) }
    fn gb(v: &Val) -> R<Fq2> { get_fq2(v) }
    fn wtab(t: Arc<Vec<G2>>, w: usize) -> Val { Val::Tab2(t, w) }
    fn gtab(v: &Val) -> R<(Arc<Vec<G2>>, usize)> {
        match v { Val::Tab2(t, w) => Ok((t.clone(), *w)), _ => Err("expected G2 wNAF table".into()) }
    }
    fn ctxs(m: &mut Machine) -> &mut Vec<Wnaf<(), Vec<G2>, Vec<i64>>> { &mut m.ctxs.w2 }
    fn iso_tables() -> Vec<Val> {
        pairing_plus::bls12_381::verif::isogeny_tables::g2()
            .iter()
            .map(|t| Val::List(t.iter().map(|c| Val::Fq2(*c)).collect()))
            .collect()
    }
    fn osswu_consts() -> Vec<Val> {
        let (a, b, z) = pairing_plus::bls12_381::verif::osswu_consts::g2();
        vec![Val::Fq2(a), Val::Fq2(b), Val::Fq2(z)]
    }
}

fn ok1(v: Val) -> R<Out> {
    Ok(Out::Ok(vec![v]))
}
fn arg(args: &[Val], i: usize) -> R<&Val> {
    args.get(i).ok_or_else(|| format!("missing argument {}", i))
}

pub fn decode_err(e: &GroupDecodingError) -> String {
    match e {
        GroupDecodingError::NotOnCurve => "curve".into(),
        GroupDecodingError::NotInSubgroup => "subgroup".into(),
        GroupDecodingError::CoordinateDecodingError(what, _) => format!("coord:{}", what.replace(' ', "_")),
        GroupDecodingError::UnexpectedCompressionMode => "mode".into(),
        GroupDecodingError::UnexpectedInformation => "info".into(),
    }
}

fn decode<E: EncodedPoint>(bytes: &[u8], checked: bool) -> R<Result<E::Affine, GroupDecodingError>> {
    let mut e = E::empty();
    if bytes.len() != E::size() || e.as_ref().len() != E::size() {
        return Err(format!("encoding needs {} bytes, got {}", E::size(), bytes.len()));
    }
    e.as_mut().copy_from_slice(bytes);
    Ok(if checked { e.into_affine() } else { e.into_affine_unchecked() })
}

/// The encoding object placed at address = K (mod 16): the outcome of decoding must not depend on where the caller
/// keeps the object.
#[repr(C, align(16))]
struct Holder<E, const K: usize> {
    pad: [u8; K],
    enc: E,
}

fn decode_at_k<E: EncodedPoint, const K: usize>(bytes: &[u8], checked: bool) -> R<Result<E::Affine, GroupDecodingError>> {
    let mut h = Box::new(Holder::<E, K> { pad: [0xa5u8; K], enc: E::empty() });
    if bytes.len() != E::size() {
        return Err(format!("encoding needs {} bytes, got {}", E::size(), bytes.len()));
    }
    h.enc.as_mut().copy_from_slice(bytes);
    let h = std::hint::black_box(h);
    debug_assert_eq!((&h.enc as *const E as usize) % 16, K % 16);
    Ok(if checked { h.enc.into_affine() } else { h.enc.into_affine_unchecked() })
}

fn decode_at<E: EncodedPoint>(bytes: &[u8], checked: bool, k: i64) -> R<Result<E::Affine, GroupDecodingError>> {
    match k {
        0 => decode::<E>(bytes, checked),
        1 => decode_at_k::<E, 1>(bytes, checked),
        2 => decode_at_k::<E, 2>(bytes, checked),
        3 => decode_at_k::<E, 3>(bytes, checked),
        4 => decode_at_k::<E, 4>(bytes, checked),
        5 => decode_at_k::<E, 5>(bytes, checked),
        6 => decode_at_k::<E, 6>(bytes, checked),
        7 => decode_at_k::<E, 7>(bytes, checked),
        8 => decode_at_k::<E, 8>(bytes, checked),
        9 => decode_at_k::<E, 9>(bytes, checked),
        12 => decode_at_k::<E, 12>(bytes, checked),
        15 => decode_at_k::<E, 15>(bytes, checked),
        _ => Err("placement 0..9, 12, 15".into()),
    }
}

/// SplitMix64 — specified identically in the Python generator; used only to
/// expand a seed into bulk *operands* of macro-ops.
pub struct SplitMix(pub u64);
impl SplitMix {
    pub fn next(&mut self) -> u64 {
        self.0 = self.0.wrapping_add(0x9E3779B97F4A7C15);
        let mut z = self.0;
        z = (z ^ (z >> 30)).wrapping_mul(0xBF58476D1CE4E5B9);
        z = (z ^ (z >> 27)).wrapping_mul(0x94D049BB133111EB);
        z ^ (z >> 31)
    }
}

fn scalars_of(v: &Val) -> R<Vec<[u64; 4]>> {
    let l = get_list(v)?;
    let mut out = Vec::with_capacity(l.len());
    for x in &l {
        out.push(repr_limbs4(&get_frrepr(x)?));
    }
    Ok(out)
}

fn affines_of<G: Grp>(v: &Val) -> R<Vec<G::A>> {
    let l = get_list(v)?;
    l.iter().map(|x| G::ga(x)).collect()
}

/// A caller-defined scalar type: the scalar parameter of the multiplication routines is generic (S: Into<Repr>), so the
/// conversion is caller code that runs inside the library call. This one calls back into the library (the other
/// scalar-multiplication paths of the same curve) and checks that they agree.
pub struct ReentScalar<G: Grp>(pub FrRepr, pub std::marker::PhantomData<G>);

impl<G: Grp> From<ReentScalar<G>> for FrRepr {
    fn from(s: ReentScalar<G>) -> FrRepr {
        let one = G::A::one();
        let k = FrRepr([0x9, 0, 1, 0]);
        let a = one.mul(k);
        let mut pre = [G::A::zero(); 3];
        one.precomp_3(&mut pre);
        let b = one.mul_precomp_3(k, &pre);
        let mut c = one.into_projective();
        c.mul_assign(k);
        assert!(a == b && b == c, "nested scalar multiplications disagree");
        s.0
    }
}

pub fn run<G: Grp>(m: &mut Machine, name: &str, args: &[Val]) -> R<Out> {
    let p = |i: usize| -> R<G::P> { G::gp(arg(args, i)?) };
    let a = |i: usize| -> R<G::A> { G::ga(arg(args, i)?) };
    let k = |i: usize| -> R<FrRepr> { get_frrepr(arg(args, i)?) };
    let n = |i: usize| -> R<i64> { get_int(arg(args, i)?) };
    match name {
        // ---------------------------------------------------------------- group law (C01)
        "zero" => ok1(G::wp(G::P::zero())),
        "one" => ok1(G::wp(G::P::one())),
        "azero" => ok1(G::wa(G::A::zero())),
        "aone" => ok1(G::wa(G::A::one())),
        "add" => {
            let mut x = p(0)?;
            x.add_assign(&p(1)?);
            ok1(G::wp(x))
        }
        "sub" => {
            let mut x = p(0)?;
            x.sub_assign(&p(1)?);
            ok1(G::wp(x))
        }
        "addm" => {
            let mut x = p(0)?;
            x.add_assign_mixed(&a(1)?);
            ok1(G::wp(x))
        }
        "subm" => {
            let mut x = p(0)?;
            x.sub_assign_mixed(&a(1)?);
            ok1(G::wp(x))
        }
        "dbl" => {
            let mut x = p(0)?;
            x.double();
            ok1(G::wp(x))
        }
        "neg" => {
            let mut x = p(0)?;
            x.negate();
            ok1(G::wp(x))
        }
        "aneg" => {
            let mut x = a(0)?;
            x.negate();
            ok1(G::wa(x))
        }
        "eq" => ok1(Val::Bool(p(0)? == p(1)?)),
        "aeq" => ok1(Val::Bool(a(0)? == a(1)?)),
        // the != operator is a trait method of its own (PartialEq::ne can be overridden)
        "ne" => ok1(Val::Bool(p(0)? != p(1)?)),
        "ane" => ok1(Val::Bool(a(0)? != a(1)?)),
        "to_affine" => ok1(G::wa(p(0)?.into_affine())),
        "to_affine_from" => ok1(G::wa(G::A::from(p(0)?))),
        "to_proj" => ok1(G::wp(a(0)?.into_projective())),
        "to_proj_from" => ok1(G::wp(G::P::from(a(0)?))),
        "is_zero" => ok1(Val::Bool(p(0)?.is_zero())),
        "ais_zero" => ok1(Val::Bool(a(0)?.is_zero())),
        "is_norm" => ok1(Val::Bool(p(0)?.is_normalized())),
        "batch_norm" => {
            let l = get_list(arg(args, 0)?)?;
            let mut v: Vec<G::P> = l.iter().map(|x| G::gp(x)).collect::<R<Vec<_>>>()?;
            G::P::batch_normalization(&mut v);
            ok1(Val::List(v.into_iter().map(G::wp).collect()))
        }
        // batch_norm_n P n: n non-normalised representatives of P (Z = 2, 3, ...), normalised in one batch; returns the
        // first and the last entry and the number of entries equal (coordinate-wise) to into_affine(P)
        "batch_norm_n" => {
            let base = p(0)?;
            let cnt = n(1)? as usize;
            let want = base.into_affine().into_projective();
            let mut v: Vec<G::P> = Vec::with_capacity(cnt);
            let mut acc = base;
            for i in 0..cnt {
                // P + O in another representative: add and subtract the running multiple keeps Z varying cheaply
                let mut q = base;
                if i % 2 == 1 {
                    q.double();
                    q.sub_assign(&base);
                }
                if i % 3 == 2 {
                    acc.double();
                    q.add_assign(&acc);
                    q.sub_assign(&acc);
                }
                v.push(q);
            }
            G::P::batch_normalization(&mut v);
            let good = v.iter().filter(|x| x.is_normalized() && x.as_tuple() == want.as_tuple()).count();
            if cnt == 0 {
                return Ok(Out::Ok(vec![Val::Int(0)]));
            }
            Ok(Out::Ok(vec![Val::Int(good as i64), G::wp(v[0]), G::wp(v[cnt - 1])]))
        }
        "random" => {
            let s = get_bytes(arg(args, 0)?)?;
            if s.len() != 16 {
                return Err("seed must be 16 bytes".into());
            }
            let mut seed = [0u8; 16];
            seed.copy_from_slice(&s);
            let mut rng = rand_xorshift::XorShiftRng::from_seed(seed);
            let cnt = if args.len() > 1 { n(1)? as usize } else { 1 };
            let mut out = vec![];
            for _ in 0..cnt {
                out.push(G::wp(G::P::random(&mut rng)));
            }
            if cnt == 1 {
                Ok(Out::Ok(out))
            } else {
                ok1(Val::List(out))
            }
        }
        // ---------------------------------------------------------------- scalar multiplication (C02)
        "mul" => {
            let mut x = p(0)?;
            x.mul_assign(k(1)?);
            ok1(G::wp(x))
        }
        // the same paths with a caller-defined scalar type whose conversion re-enters the library
        "mul_re" => {
            let mut x = p(0)?;
            x.mul_assign(ReentScalar::<G>(k(1)?, std::marker::PhantomData));
            ok1(G::wp(x))
        }
        "amul_re" => ok1(G::wp(a(0)?.mul(ReentScalar::<G>(k(1)?, std::marker::PhantomData)))),
        "mul_pre3_re" => {
            let pre = affines_of::<G>(arg(args, 2)?)?;
            ok1(G::wp(a(0)?.mul_precomp_3(ReentScalar::<G>(k(1)?, std::marker::PhantomData), &pre)))
        }
        "mul_pre256_re" => {
            let pre = affines_of::<G>(arg(args, 2)?)?;
            ok1(G::wp(a(0)?.mul_precomp_256(ReentScalar::<G>(k(1)?, std::marker::PhantomData), &pre)))
        }
        "mulfr" => {
            let mut x = p(0)?;
            x.mul_assign(get_fr(arg(args, 1)?)?);
            ok1(G::wp(x))
        }
        // the scalar parameter is generic (S: Into<Repr>): a representation or a field element
        "amul" => match arg(args, 1)? {
            Val::Fr(f) => ok1(G::wp(a(0)?.mul(*f))),
            _ => ok1(G::wp(a(0)?.mul(k(1)?))),
        },
        "wnaf_table" => {
            let w = n(1)? as usize;
            let mut t = vec![];
            verif_wnaf::wnaf_table(&mut t, p(0)?, w);
            let first = t.first().cloned();
            let last = t.last().cloned();
            let tab = G::wtab(Arc::new(t), w);
            let mut out = vec![tab];
            if let (Some(f), Some(l)) = (first, last) {
                out.push(G::wp(f));
                out.push(G::wp(l));
            }
            Ok(Out::Ok(out))
        }
        "wnaf_tab_entry" => {
            let (t, _) = G::gtab(arg(args, 0)?)?;
            let i = n(1)? as usize;
            ok1(G::wp(*t.get(i).ok_or("table index out of range")?))
        }
        "wnaf_form" => {
            let w = n(1)? as usize;
            let mut d = vec![];
            verif_wnaf::wnaf_form(&mut d, k(0)?, w);
            ok1(Val::Digits(d, w))
        }
        "wnaf_exp" => {
            let (t, _) = G::gtab(arg(args, 0)?)?;
            let d = match arg(args, 1)? {
                Val::Digits(d, _) => d.clone(),
                _ => return Err("expected digits".into()),
            };
            ok1(G::wp(verif_wnaf::wnaf_exp(&t[..], &d[..])))
        }
        "ctx_new" => {
            let c = G::ctxs(m);
            c.push(Wnaf::new());
            ok1(Val::Ctx(c.len() - 1))
        }
        // ctx_base $ctx P n:num_scalars l:scalars  — one table, many scalars (table-first staging)
        "ctx_base" => {
            let ci = match arg(args, 0)? { Val::Ctx(i) => *i, _ => return Err("expected ctx".into()) };
            let base = p(1)?;
            let num = n(2)? as usize;
            let ks = get_list(arg(args, 3)?)?;
            let shared = args.len() > 4 && n(4)? != 0;
            let ctx = G::ctxs(m).get_mut(ci).ok_or("bad ctx")?;
            let mut staged = ctx.base(base, num);
            let mut out = vec![];
            for kk in &ks {
                let kr = get_frrepr(kk)?;
                if shared {
                    let mut s = staged.shared();
                    out.push(G::wp(s.scalar::<G::P>(kr)));
                } else {
                    out.push(G::wp(staged.scalar::<G::P>(kr)));
                }
            }
            ok1(Val::List(out))
        }
        // ctx_scalar $ctx R:k l:bases  — one digit string, many bases (scalar-first staging)
        "ctx_scalar" => {
            let ci = match arg(args, 0)? { Val::Ctx(i) => *i, _ => return Err("expected ctx".into()) };
            let kr = k(1)?;
            let bases = get_list(arg(args, 2)?)?;
            let shared = args.len() > 3 && n(3)? != 0;
            let ctx = G::ctxs(m).get_mut(ci).ok_or("bad ctx")?;
            let mut staged = ctx.scalar(kr);
            let mut out = vec![];
            for b in &bases {
                let bp = G::gp(b)?;
                if shared {
                    let mut s = staged.shared();
                    out.push(G::wp(s.base::<G::P>(bp)));
                } else {
                    out.push(G::wp(staged.base::<G::P>(bp)));
                }
            }
            ok1(Val::List(out))
        }
        "rec_scalar" => ok1(Val::Int(G::P::recommended_wnaf_for_scalar(k(0)?) as i64)),
        "rec_num" => ok1(Val::Int(G::P::recommended_wnaf_for_num_scalars(n(0)? as usize) as i64)),
        "precomp3" => {
            // a reused (dirty) buffer is a legitimate argument: the routine is documented to set every entry
            let mut pre = vec![G::A::one(); 3];
            a(0)?.precomp_3(&mut pre);
            ok1(Val::List(pre.into_iter().map(G::wa).collect()))
        }
        "mul_pre3" => {
            let pre = affines_of::<G>(arg(args, 2)?)?;
            match arg(args, 1)? {
                Val::Fr(f) => ok1(G::wp(a(0)?.mul_precomp_3(*f, &pre))),
                _ => ok1(G::wp(a(0)?.mul_precomp_3(k(1)?, &pre))),
            }
        }
        "precomp256" => {
            let mut pre = vec![G::A::one(); 256];
            a(0)?.precomp_256(&mut pre);
            ok1(Val::List(pre.into_iter().map(G::wa).collect()))
        }
        "mul_pre256" => {
            let pre = affines_of::<G>(arg(args, 2)?)?;
            match arg(args, 1)? {
                Val::Fr(f) => ok1(G::wp(a(0)?.mul_precomp_256(*f, &pre))),
                _ => ok1(G::wp(a(0)?.mul_precomp_256(k(1)?, &pre))),
            }
        }
        // ---------------------------------------------------------------- multi-scalar multiplication (C10)
        "msm" | "msm_pip" | "msm_pre256" => {
            let pts = affines_of::<G>(arg(args, 0)?)?;
            let sc = scalars_of(arg(args, 1)?)?;
            let refs: Vec<&[u64; 4]> = sc.iter().collect();
            match name {
                "msm" => ok1(G::wp(G::A::sum_of_products(&pts, &refs))),
                "msm_pip" => ok1(G::wp(G::A::sum_of_products_pippinger(&pts, &refs, n(2)? as usize))),
                _ => {
                    // table = concatenation of precomp_256 of every point (library routine)
                    // optional third argument: how the caller lays the tables out in its buffer
                    //   0 exact 256-entry chunks, ascending; 1 the rest of the buffer (&mut pre[i*256..]) handed to
                    //   precomp_256, last table first; 2 as 1, then every third table rebuilt in place;
                    //   3 exact chunks, each pre-filled with its own point
                    let style = if args.len() > 2 { n(2)? } else { 0 };
                    let mut pre = vec![G::A::one(); 256 * pts.len()];
                    match style {
                        0 => {
                            for (i, q) in pts.iter().enumerate() {
                                q.precomp_256(&mut pre[i * 256..(i + 1) * 256]);
                            }
                        }
                        1 | 2 => {
                            for (i, q) in pts.iter().enumerate().rev() {
                                q.precomp_256(&mut pre[i * 256..]);
                            }
                            if style == 2 {
                                for (i, q) in pts.iter().enumerate().rev().step_by(3) {
                                    q.precomp_256(&mut pre[i * 256..]);
                                }
                            }
                        }
                        3 => {
                            for (i, q) in pts.iter().enumerate() {
                                for e in pre[i * 256..(i + 1) * 256].iter_mut() {
                                    *e = *q;
                                }
                                q.precomp_256(&mut pre[i * 256..(i + 1) * 256]);
                            }
                        }
                        _ => return Err("msm_pre256: layout style 0..3".into()),
                    }
                    ok1(G::wp(G::A::sum_of_products_precomp_256(&pts, &refs, &pre)))
                }
            }
        }
        // msm_pre256x l:table_points l:points l:scalars — the table covers more points than are passed
        "msm_pre256x" => {
            let tp = affines_of::<G>(arg(args, 0)?)?;
            let pts = affines_of::<G>(arg(args, 1)?)?;
            let sc = scalars_of(arg(args, 2)?)?;
            let refs: Vec<&[u64; 4]> = sc.iter().collect();
            let mut pre = vec![G::A::one(); 256 * tp.len()];
            for (i, q) in tp.iter().enumerate() {
                q.precomp_256(&mut pre[i * 256..(i + 1) * 256]);
            }
            ok1(G::wp(G::A::sum_of_products_precomp_256(&pts, &refs, &pre)))
        }
        // msm_prog A0 D n:count w:seed n:window(0 = default entry) n:nsample
        // points P_i = A0 + i*D (i < count), scalars from SplitMix64(seed) with the top bit cleared;
        // special entries: every 97th point is the identity, every 101st repeats the previous point,
        // every 103rd is the inverse of the previous point.
        "msm_prog" => {
            let a0 = a(0)?;
            let d = a(1)?;
            let count = n(2)? as usize;
            let seed = get_limbs(arg(args, 3)?)?[0];
            let window = n(4)? as usize;
            let nsample = n(5)? as usize;
            let mut pts_p: Vec<G::P> = Vec::with_capacity(count);
            let mut cur = a0.into_projective();
            for i in 0..count {
                let q = if i % 97 == 96 {
                    G::P::zero()
                } else if i % 101 == 100 && i > 0 {
                    pts_p[i - 1]
                } else if i % 103 == 102 && i > 0 {
                    let mut t = pts_p[i - 1];
                    t.negate();
                    t
                } else {
                    cur
                };
                pts_p.push(q);
                cur.add_assign_mixed(&d);
            }
            G::P::batch_normalization(&mut pts_p);
            let pts: Vec<G::A> = pts_p.iter().map(|q| q.into_affine()).collect();
            let mut sm = SplitMix(seed);
            let mut sc: Vec<[u64; 4]> = Vec::with_capacity(count);
            for _ in 0..count {
                let l = [sm.next(), sm.next(), sm.next(), sm.next() >> 1];
                sc.push(l);
            }
            let refs: Vec<&[u64; 4]> = sc.iter().collect();
            let res = if window == 0 {
                G::A::sum_of_products(&pts, &refs)
            } else {
                G::A::sum_of_products_pippinger(&pts, &refs, window)
            };
            let mut out = vec![G::wp(res)];
            // sample of the operands actually used, so that the monitor can confirm them
            let mut sample = vec![];
            if count > 0 {
                let mut sm2 = SplitMix(seed ^ 0x5555);
                for _ in 0..nsample {
                    let i = (sm2.next() % count as u64) as usize;
                    sample.push(Val::Int(i as i64));
                    sample.push(G::wa(pts[i]));
                    sample.push(Val::FrRepr(FrRepr(sc[i])));
                }
            }
            out.push(Val::List(sample));
            Ok(Out::Ok(out))
        }
        "pip_window" => ok1(Val::Int(G::A::find_pippinger_window(n(0)? as usize) as i64)),
        "pip_window_est" => ok1(Val::Int(G::A::find_pippinger_window_via_estimate(n(0)? as usize) as i64)),
        // ---------------------------------------------------------------- membership (C07)
        "in_subgroup" => ok1(Val::Bool(a(0)?.in_subgroup())),
        // ---------------------------------------------------------------- encodings (C04, C05)
        "enc_c" => ok1(Val::Bytes(a(0)?.into_compressed().as_ref().to_vec())),
        "enc_u" => ok1(Val::Bytes(a(0)?.into_uncompressed().as_ref().to_vec())),
        "enc_c_from" => ok1(Val::Bytes(G::C::from_affine(a(0)?).as_ref().to_vec())),
        "enc_u_from" => ok1(Val::Bytes(G::U::from_affine(a(0)?).as_ref().to_vec())),
        "enc_sizes" => Ok(Out::Ok(vec![Val::Int(G::C::size() as i64), Val::Int(G::U::size() as i64)])),
        "dec_c" | "dec_u" | "dec_c_unchecked" | "dec_u_unchecked" => {
            let b = get_bytes(arg(args, 0)?)?;
            let checked = !name.ends_with("unchecked");
            // optional second argument: placement of the encoding object (address modulo 16)
            let k = if args.len() > 1 { n(1)? } else { 0 };
            let r = if name.starts_with("dec_c") { decode_at::<G::C>(&b, checked, k)? } else { decode_at::<G::U>(&b, checked, k)? };
            Ok(match r {
                Ok(pt) => Out::Ok(vec![G::wa(pt)]),
                Err(e) => Out::Err(decode_err(&e)),
            })
        }
        // ---------------------------------------------------------------- hashing / maps (C06, C14-C17)
        "hash" | "encode" => {
            let x = get_str(arg(args, 0)?)?;
            let msg = get_bytes(arg(args, 1)?)?;
            let dst = get_bytes(arg(args, 2)?)?;
            let ro = name == "hash";
            macro_rules! go {
                ($X:ty) => {
                    if ro {
                        <G::P as HashToCurve<$X>>::hash_to_curve(&msg, &dst)
                    } else {
                        <G::P as HashToCurve<$X>>::encode_to_curve(&msg, &dst)
                    }
                };
            }
            let r = match x.as_str() {
                "sha256" => go!(XmdSha256),
                "sha512" => go!(XmdSha512),
                "shake128" => go!(XofShake128),
                "shake256" => go!(XofShake256),
                _ => return Err("unknown expander".into()),
            };
            ok1(G::wp(r))
        }
        "map" => ok1(G::wp(<G::P as MapToCurve<G::P>>::map_to_curve(&G::gb(arg(args, 0)?)?))),
        "map2" => ok1(G::wp(<G::P as MapToCurve<G::P>>::map2_to_curve(
            &G::gb(arg(args, 0)?)?,
            &G::gb(arg(args, 1)?)?,
        ))),
        "osswu" => ok1(G::wp(<G::P as OSSWUMap>::osswu_map(&G::gb(arg(args, 0)?)?))),
        "iso" => {
            let mut x = p(0)?;
            x.isogeny_map();
            ok1(G::wp(x))
        }
        "clear_h" => {
            let mut x = p(0)?;
            x.clear_h();
            ok1(G::wp(x))
        }
        "iso_tables" => Ok(Out::Ok(G::iso_tables())),
        "osswu_consts" => Ok(Out::Ok(G::osswu_consts())),
        _ => Err(format!("unknown curve op {}", name)),
    }
}
