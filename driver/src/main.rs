//! ppdrv — op interpreter over the public API of pairing-plus (plus the `verif` hooks).
//!
//! Script line:  `<id> <op> <arg>...`   args are literals (`q:..`, `p1:..`, ...) or `$<id>`
//! Log lines:    `B <id>` before the call, `E <id> <status> <outputs...>` after it.
//! status: ok | none | err:<category> | panic | bad:<harness error>
//! The driver performs no arithmetic of its own.

mod ops_curve;
mod ops_field;
mod ops_misc;
mod par;
mod val;

use std::collections::HashMap;
use std::io::{BufRead, BufReader, BufWriter, Write};
use std::panic::{catch_unwind, AssertUnwindSafe};
use val::*;

pub enum Out {
    Ok(Vec<Val>),
    None,
    Err(String),
}

pub struct Ctxs {
    pub w1: Vec<pairing_plus::Wnaf<(), Vec<pairing_plus::bls12_381::G1>, Vec<i64>>>,
    pub w2: Vec<pairing_plus::Wnaf<(), Vec<pairing_plus::bls12_381::G2>, Vec<i64>>>,
}

pub struct Machine {
    pub regs: HashMap<u64, Val>,
    /// registers of the sequential prelude, shared read-only between threads
    pub shared: Option<std::sync::Arc<HashMap<u64, Val>>>,
    pub ctxs: Ctxs,
}

impl Machine {
    pub fn new() -> Self {
        Machine { regs: HashMap::new(), shared: None, ctxs: Ctxs { w1: vec![], w2: vec![] } }
    }

    pub fn resolve(&self, tok: &str) -> R<Val> {
        if let Some(rest) = tok.strip_prefix('$') {
            // `$12` = first output of op 12, `$12.3` = list element / output index
            let (idp, idx) = match rest.find('.') {
                Some(i) => (&rest[..i], Some(&rest[i + 1..])),
                None => (rest, None),
            };
            let id: u64 = idp.parse().map_err(|_| format!("bad register {}", tok))?;
            let v = match self.regs.get(&id) {
                Some(v) => v,
                None => self
                    .shared
                    .as_ref()
                    .and_then(|s| s.get(&id))
                    .ok_or_else(|| format!("register {} not set", tok))?,
            };
            match idx {
                None => Ok(v.clone()),
                Some(s) => {
                    let k: usize = s.parse().map_err(|_| format!("bad index {}", tok))?;
                    match v {
                        Val::List(l) => l.get(k).cloned().ok_or_else(|| format!("index {} out of range", tok)),
                        _ => Err(format!("{} is not a list", tok)),
                    }
                }
            }
        } else if let Some(body) = tok.strip_prefix("l:") {
            // list literal: elements separated by ';' (elements may be registers)
            if body.is_empty() {
                return Ok(Val::List(vec![]));
            }
            let mut v = vec![];
            for e in body.split(';') {
                v.push(self.resolve(e)?);
            }
            Ok(Val::List(v))
        } else {
            parse_literal(tok)
        }
    }
}

pub fn dispatch(m: &mut Machine, op: &str, args: &[Val]) -> R<Out> {
    let (fam, name) = match op.find('.') {
        Some(i) => (&op[..i], &op[i + 1..]),
        None => ("", op),
    };
    match fam {
        "fq" | "fr" | "fq2" | "fq6" | "fq12" | "Q" | "R" | "Tfq" | "Tfr" | "Tfq2" | "Tfq6" | "Tfq12" | "TQ" | "TR" => ops_field::run(fam, name, args),
        "g1" => ops_curve::run::<ops_curve::G1Grp>(m, name, args),
        "g2" => ops_curve::run::<ops_curve::G2Grp>(m, name, args),
        _ => ops_misc::run(m, op, args),
    }
}

fn main() {
    let args: Vec<String> = std::env::args().collect();
    if args.len() < 3 {
        eprintln!("usage: ppdrv <script> <log> [--threads N --rounds K --yield-seed S --probes 0|1]");
        std::process::exit(2);
    }
    // panics are an outcome, not noise: silence the default hook
    std::panic::set_hook(Box::new(|_| {}));
    let mut threads = 0usize;
    let mut rounds = 1usize;
    let mut yseed = 1u64;
    let mut probes = true;
    let mut baseline_last = false;
    let mut i = 3;
    while i < args.len() {
        match args[i].as_str() {
            "--threads" => { threads = args[i + 1].parse().unwrap(); i += 2; }
            "--rounds" => { rounds = args[i + 1].parse().unwrap(); i += 2; }
            "--yield-seed" => { yseed = args[i + 1].parse().unwrap(); i += 2; }
            "--probes" => { probes = args[i + 1] != "0"; i += 2; }
            "--baseline-last" => { baseline_last = true; i += 1; }
            _ => { eprintln!("unknown flag {}", args[i]); std::process::exit(2); }
        }
    }
    let script = std::fs::File::open(&args[1]).expect("open script");
    let lines: Vec<String> = BufReader::new(script).lines().map(|l| l.unwrap()).collect();
    let logf = std::fs::File::create(&args[2]).expect("create log");
    let mut log = BufWriter::with_capacity(1 << 16, logf);
    if threads > 0 {
        par::run(&lines, &mut log, threads, rounds, yseed, probes, baseline_last);
        log.flush().unwrap();
        return;
    }
    let mut m = Machine::new();
    for line in &lines {
        run_line(&mut m, line, &mut log, true);
    }
    writeln!(log, "END").unwrap();
    log.flush().unwrap();
}

/// Parse a script line; None for blank / comment lines.
pub fn split_line(line: &str) -> Option<(&str, &str, Vec<&str>)> {
    let line = line.trim();
    if line.is_empty() || line.starts_with('#') {
        return None;
    }
    let mut it = line.split_whitespace();
    let id = it.next().unwrap();
    let op = it.next().unwrap_or("");
    Some((id, op, it.collect()))
}

/// Run one op (already split) and render its result record (without the `E <id> ` prefix).
pub fn exec(m: &mut Machine, id: u64, op: &str, argv: &[Val], store: bool) -> String {
    let res = catch_unwind(AssertUnwindSafe(|| dispatch(m, op, argv)));
    let mut s = String::new();
    match res {
        Err(_) => s.push_str("panic"),
        Ok(Err(e)) => {
            s.push_str("bad:");
            s.push_str(&e.replace(' ', "_"));
        }
        Ok(Ok(Out::None)) => s.push_str("none"),
        Ok(Ok(Out::Err(c))) => {
            s.push_str("err:");
            s.push_str(&c);
        }
        Ok(Ok(Out::Ok(vals))) => {
            s.push_str("ok");
            for v in &vals {
                s.push(' ');
                NONCANON.with(|f| f.set(false));
                let at = s.len();
                show(v, &mut s);
                if NONCANON.with(|f| f.get()) {
                    // observation, not arithmetic: a returned field element is not equal (library `==`) to the
                    // canonical element with the same integer value
                    s.insert_str(at, "NC:");
                }
            }
            if store {
                if let Some(v) = vals.into_iter().next() {
                    m.regs.insert(id, v);
                }
            }
        }
    }
    s
}

/// Execute one script line against machine `m`; write B/E records.
pub fn run_line<W: Write>(m: &mut Machine, line: &str, log: &mut W, flush: bool) {
    let (id_s, op, toks) = match split_line(line) {
        Some(x) => x,
        None => return,
    };
    let id: u64 = match id_s.parse() {
        Ok(x) => x,
        Err(_) => {
            writeln!(log, "E {} bad:id", id_s).unwrap();
            return;
        }
    };
    let mut argv = Vec::with_capacity(toks.len());
    for t in &toks {
        match m.resolve(t) {
            Ok(v) => argv.push(v),
            Err(e) => {
                writeln!(log, "E {} bad:{}", id, e.replace(' ', "_")).unwrap();
                return;
            }
        }
    }
    writeln!(log, "B {}", id).unwrap();
    if flush {
        log.flush().unwrap();
    }
    let s = exec(m, id, op, &argv, true);
    writeln!(log, "E {} {}", id, s).unwrap();
}
