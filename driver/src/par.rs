//! Threaded execution for C20.
//!
//! Script layout:   <prelude ops>  /  `PAR`  /  <parallel ops>
//! The prelude runs once, sequentially; its registers (wNAF tables, prepared
//! pairing elements, precomputation tables, points) are then shared *by
//! reference* between all threads. Parallel ops may only read prelude registers.
//!
//! Directives inside the prelude:
//!   `SHARE_BASE  g1|g2 <P> <num_scalars>`   stage a wNAF window table (Wnaf::base)
//!   `SHARE_SCALAR g1|g2 <R:k>`              stage a wNAF digit string (Wnaf::scalar)
//! Parallel-only ops using them through `shared()`:
//!   `g1.shared_scalar R:k`, `g1.shared_base P`  (and g2.*)
//!
//! Log: prelude B/E records, `PAR`, `S <id> <rec>` (sequential baseline of the
//! parallel section), `X <round> <thread> <id> <rec>` per thread execution,
//! `F <round> <fingerprint> <switches> <events>` per round, `END`.

use crate::val::*;
use crate::{exec, run_line, split_line, Machine};
use pairing_plus::bls12_381::{Fq12, FrRepr, G1Affine, G2Affine, G2Compressed, G1, G2};
use pairing_plus::hash_to_curve::HashToCurve;
use pairing_plus::hash_to_field::ExpandMsgXmd;
use pairing_plus::serdes::SerDes;
use pairing_plus::{CurveAffine, CurveProjective, EncodedPoint};
use pairing_plus::verif_probe;
use pairing_plus::Wnaf;
use std::cell::Cell;
use std::collections::HashMap;
use std::io::Write;
use std::sync::atomic::{AtomicBool, AtomicU64, Ordering};
use std::sync::{Arc, Barrier, Mutex};

static SEQ: AtomicU64 = AtomicU64::new(0);
static RECORD: AtomicBool = AtomicBool::new(false);
const MAX_EVENTS_PER_THREAD: usize = 20000;

thread_local! {
    static TID: Cell<u32> = Cell::new(0);
    static RNG: Cell<u64> = Cell::new(0);
    static EVENTS: std::cell::RefCell<Vec<(u64, u32)>> = std::cell::RefCell::new(Vec::new());
}

fn probe_cb(id: u32) {
    if !RECORD.load(Ordering::Relaxed) {
        return;
    }
    let seq = SEQ.fetch_add(1, Ordering::Relaxed);
    // try_with: the probe also fires for library calls made during thread teardown, when the harness' own
    // thread-locals may already be gone (then nothing is recorded and the schedule is not perturbed)
    let _ = EVENTS.try_with(|e| {
        let mut e = e.borrow_mut();
        if e.len() < MAX_EVENTS_PER_THREAD {
            e.push((seq, id));
        }
    });
    // seeded schedule perturbation
    let r = RNG
        .try_with(|c| {
            let mut x = c.get();
            if x == 0 {
                return 0;
            }
            x ^= x << 13;
            x ^= x >> 7;
            x ^= x << 17;
            c.set(x);
            x
        })
        .unwrap_or(0);
    if r != 0 {
        if r % 8 == 0 {
            std::thread::yield_now();
        } else if r % 61 == 0 {
            let spins = (r >> 20) % 2000;
            for _ in 0..spins {
                std::hint::spin_loop();
            }
        }
    }
}

/// Results of the library calls made from a thread-local destructor (thread teardown).
static EXIT_OUT: Mutex<Vec<String>> = Mutex::new(Vec::new());

/// Library calls made while the thread is being torn down (from the destructor of a caller-owned thread-local that was
/// registered before the thread's first library call): a multi-scalar multiplication, a hash to G1, a G2
/// decompression, a scalar multiplication and an Fq12 serialisation; the outputs are returned as one hex string.
fn exit_calls() -> String {
    let g1 = G1Affine::one();
    let mut p2 = g1.into_projective();
    p2.double();
    let pts = [g1, p2.into_affine()];
    let k0 = [0x1234_5678_9abc_def0u64, 7, 0, 1 << 62];
    let k1 = [3u64, 0, 0xffff_ffff_ffff_ffff, 5];
    let sc: Vec<&[u64; 4]> = vec![&k0, &k1];
    let mut out: Vec<u8> = vec![];
    if cfg!(miri) {
        // interpreter-sized: no hashing (generic-array 0.12 is rejected by Miri, see DESIGN), no long ladders
        out.extend_from_slice(G1Affine::sum_of_products_pippinger(&pts, &[&[3u64, 0, 0, 0], &[1u64, 0, 0, 0]], 2).into_affine().into_uncompressed().as_ref());
        let _ = <Fq12 as ff_zeroize::Field>::one().serialize(&mut out, true);
        return out.iter().map(|b| format!("{:02x}", b)).collect();
    }
    out.extend_from_slice(G1Affine::sum_of_products(&pts, &sc).into_affine().into_compressed().as_ref());
    out.extend_from_slice(G1Affine::sum_of_products_pippinger(&pts, &sc, 3).into_affine().into_compressed().as_ref());
    let h = <G1 as HashToCurve<ExpandMsgXmd<sha2::Sha256>>>::hash_to_curve(b"thread teardown", b"C20-exit");
    out.extend_from_slice(h.into_affine().into_compressed().as_ref());
    let c: G2Compressed = G2Affine::one().into_compressed();
    match c.into_affine() {
        Ok(a) => out.extend_from_slice(a.into_uncompressed().as_ref()),
        Err(_) => out.push(0xee),
    }
    let mut q = G2Affine::one().into_projective();
    q.mul_assign(FrRepr(k1));
    out.extend_from_slice(q.into_affine().into_compressed().as_ref());
    let _ = <Fq12 as ff_zeroize::Field>::one().serialize(&mut out, true);
    let mut s = String::with_capacity(out.len() * 2);
    for b in out {
        s.push_str(&format!("{:02x}", b));
    }
    s
}

struct ExitGuard {
    armed: bool,
    round: usize,
    t: usize,
}
impl Drop for ExitGuard {
    fn drop(&mut self) {
        if self.armed {
            let r = exit_calls();
            EXIT_OUT.lock().unwrap().push(format!("T {} {} {}", self.round, self.t, r));
        }
    }
}
thread_local! {
    static EXIT_GUARD: std::cell::RefCell<ExitGuard> = std::cell::RefCell::new(ExitGuard { armed: false, round: 0, t: 0 });
}

struct Shared<'a> {
    b1: Option<Wnaf<usize, &'a [G1], &'a mut Vec<i64>>>,
    b2: Option<Wnaf<usize, &'a [G2], &'a mut Vec<i64>>>,
    s1: Option<Wnaf<usize, &'a mut Vec<G1>, &'a [i64]>>,
    s2: Option<Wnaf<usize, &'a mut Vec<G2>, &'a [i64]>>,
}

fn par_exec(m: &mut Machine, sh: &Shared, id: u64, op: &str, toks: &[&str]) -> String {
    let mut argv = Vec::with_capacity(toks.len());
    for t in toks {
        match m.resolve(t) {
            Ok(v) => argv.push(v),
            Err(e) => return format!("bad:{}", e.replace(' ', "_")),
        }
    }
    let special = std::panic::catch_unwind(std::panic::AssertUnwindSafe(|| -> Option<R<Val>> {
        Some(match op {
            "g1.shared_scalar" => (|| {
                let k: FrRepr = get_frrepr(argv.get(0).ok_or("arg")?)?;
                let st = sh.b1.as_ref().ok_or("no shared g1 base")?;
                let mut s = st.shared();
                Ok(Val::G1(s.scalar::<G1>(k)))
            })(),
            "g2.shared_scalar" => (|| {
                let k: FrRepr = get_frrepr(argv.get(0).ok_or("arg")?)?;
                let st = sh.b2.as_ref().ok_or("no shared g2 base")?;
                let mut s = st.shared();
                Ok(Val::G2(s.scalar::<G2>(k)))
            })(),
            "g1.shared_base" => (|| {
                let p = get_g1(argv.get(0).ok_or("arg")?)?;
                let st = sh.s1.as_ref().ok_or("no shared g1 scalar")?;
                let mut s = st.shared();
                Ok(Val::G1(s.base::<G1>(p)))
            })(),
            "g2.shared_base" => (|| {
                let p = get_g2(argv.get(0).ok_or("arg")?)?;
                let st = sh.s2.as_ref().ok_or("no shared g2 scalar")?;
                let mut s = st.shared();
                Ok(Val::G2(s.base::<G2>(p)))
            })(),
            _ => return None,
        })
    }));
    match special {
        Err(_) => "panic".to_string(),
        Ok(Some(Ok(v))) => {
            let mut s = String::from("ok ");
            NONCANON.with(|f| f.set(false));
            show(&v, &mut s);
            if NONCANON.with(|f| f.get()) {
                s.insert_str(3, "NC:");
            }
            s
        }
        Ok(Some(Err(e))) => format!("bad:{}", e.replace(' ', "_")),
        Ok(None) => exec(m, id, op, &argv, false),
    }
}

struct XorShift(u64);
impl XorShift {
    fn next(&mut self) -> u64 {
        let mut x = self.0;
        x ^= x << 13;
        x ^= x >> 7;
        x ^= x << 17;
        self.0 = x;
        x
    }
}

pub fn run<W: Write>(lines: &[String], log: &mut W, threads: usize, rounds: usize, yseed: u64, probes: bool, baseline_last: bool) {
    let split = lines.iter().position(|l| l.trim() == "PAR").expect("script has no PAR line");
    let mut m = Machine::new();
    // staging areas for the shared wNAF objects (must outlive the threads)
    let mut c1b: Wnaf<(), Vec<G1>, Vec<i64>> = Wnaf::new();
    let mut c2b: Wnaf<(), Vec<G2>, Vec<i64>> = Wnaf::new();
    let mut c1s: Wnaf<(), Vec<G1>, Vec<i64>> = Wnaf::new();
    let mut c2s: Wnaf<(), Vec<G2>, Vec<i64>> = Wnaf::new();
    let mut want: HashMap<String, Vec<String>> = HashMap::new();
    for line in &lines[..split] {
        let t = line.trim();
        if t.starts_with("SHARE_") {
            let v: Vec<String> = t.split_whitespace().map(|s| s.to_string()).collect();
            want.insert(format!("{} {}", v[0], v[1]), v[2..].to_vec());
            continue;
        }
        run_line(&mut m, line, log, true);
    }
    let mut sh = Shared { b1: None, b2: None, s1: None, s2: None };
    if let Some(a) = want.get("SHARE_BASE g1") {
        let p = get_g1(&m.resolve(&a[0]).unwrap()).unwrap();
        sh.b1 = Some(c1b.base(p, a[1].parse().unwrap()));
    }
    if let Some(a) = want.get("SHARE_BASE g2") {
        let p = get_g2(&m.resolve(&a[0]).unwrap()).unwrap();
        sh.b2 = Some(c2b.base(p, a[1].parse().unwrap()));
    }
    if let Some(a) = want.get("SHARE_SCALAR g1") {
        sh.s1 = Some(c1s.scalar(get_frrepr(&m.resolve(&a[0]).unwrap()).unwrap()));
    }
    if let Some(a) = want.get("SHARE_SCALAR g2") {
        sh.s2 = Some(c2s.scalar(get_frrepr(&m.resolve(&a[0]).unwrap()).unwrap()));
    }
    writeln!(log, "PAR").unwrap();
    log.flush().unwrap();

    // parallel section, parsed once
    let ops: Vec<(u64, &str, Vec<&str>)> = lines[split + 1..]
        .iter()
        .filter_map(|l| split_line(l))
        .map(|(id, op, toks)| (id.parse::<u64>().expect("bad id"), op, toks))
        .collect();
    let shared_regs = Arc::new(std::mem::take(&mut m.regs));

    // (1) sequential baseline — unless the threads are to be the FIRST users of the library in this process
    // (`--baseline-last`: lazily initialised state is then first touched concurrently)
    let baseline = |log: &mut W| {
        let mut bm = Machine::new();
        bm.shared = Some(shared_regs.clone());
        for (id, op, toks) in &ops {
            let r = par_exec(&mut bm, &sh, *id, op, toks);
            writeln!(log, "S {} {}", id, r).unwrap();
        }
        log.flush().unwrap();
    };
    if !baseline_last {
        baseline(log);
        writeln!(log, "TS {}", exit_calls()).unwrap();
    }

    // (2) threads
    if probes {
        verif_probe::install(probe_cb);
    }
    let out = Mutex::new(Vec::<String>::new());
    for round in 0..rounds {
        SEQ.store(0, Ordering::SeqCst);
        let barrier = Barrier::new(threads);
        let evs: Mutex<Vec<(u64, u32, u32)>> = Mutex::new(Vec::new());
        std::thread::scope(|scope| {
            let mut handles = Vec::with_capacity(threads);
            for t in 0..threads {
                let ops = &ops;
                let sh = &sh;
                let out = &out;
                let evs = &evs;
                let barrier = &barrier;
                let shared_regs = shared_regs.clone();
                handles.push(scope.spawn(move || {
                    // registered before the thread's first library call, hence destroyed after anything the library
                    // may register lazily on this thread
                    EXIT_GUARD.with(|g| {
                        let mut g = g.borrow_mut();
                        g.armed = true;
                        g.round = round;
                        g.t = t;
                    });
                    TID.with(|c| c.set(t as u32));
                    let seed = yseed
                        .wrapping_mul(0x9E3779B97F4A7C15)
                        .wrapping_add(((round as u64) << 32) | (t as u64 + 1));
                    RNG.with(|c| c.set(if probes { seed | 1 } else { 0 }));
                    EVENTS.with(|e| e.borrow_mut().clear());
                    // own permutation of the op list (Fisher-Yates, seeded)
                    let mut order: Vec<usize> = (0..ops.len()).collect();
                    let mut rng = XorShift(seed | 1);
                    for i in (1..order.len()).rev() {
                        let j = (rng.next() % (i as u64 + 1)) as usize;
                        order.swap(i, j);
                    }
                    let mut tm = Machine::new();
                    tm.shared = Some(shared_regs);
                    let mut local = Vec::with_capacity(ops.len());
                    barrier.wait();
                    RECORD.store(true, Ordering::Relaxed);
                    for &i in &order {
                        let (id, op, toks) = &ops[i];
                        let r = par_exec(&mut tm, sh, *id, op, toks);
                        local.push(format!("X {} {} {} {}", round, t, id, r));
                    }
                    out.lock().unwrap().extend(local);
                    let mine: Vec<(u64, u32, u32)> =
                        EVENTS.with(|e| e.borrow().iter().map(|(s, p)| (*s, t as u32, *p)).collect());
                    evs.lock().unwrap().extend(mine);
                }));
            }
            // explicit joins: wait for the threads to be gone altogether, thread-local destructors included
            for h in handles.drain(..) {
                let _ = h.join();
            }
        });
        for l in EXIT_OUT.lock().unwrap().drain(..) {
            writeln!(log, "{}", l).unwrap();
        }
        RECORD.store(false, Ordering::Relaxed);
        for l in out.lock().unwrap().drain(..) {
            writeln!(log, "{}", l).unwrap();
        }
        // interleaving fingerprint: order of threads in the global probe sequence
        let mut e = evs.into_inner().unwrap();
        e.sort();
        let mut h: u64 = 0xcbf29ce484222325;
        let mut switches = 0u64;
        let mut last = u32::MAX;
        for (_, t, p) in e.iter().take(50000) {
            h ^= ((*t as u64) << 8) | (*p as u64);
            h = h.wrapping_mul(0x100000001b3);
            if *t != last {
                switches += 1;
                last = *t;
            }
        }
        writeln!(log, "F {} {:016x} {} {}", round, h, switches, e.len()).unwrap();
        log.flush().unwrap();
    }
    if probes {
        verif_probe::uninstall();
    }
    if baseline_last {
        baseline(log);
        writeln!(log, "TS {}", exit_calls()).unwrap();
    }
    writeln!(log, "END").unwrap();
}
