#!/bin/bash
# Run once after a fresh restore (offline): builds the driver variants from /repo's working tree and warms caches.
# Every check rebuilds what it needs itself (incrementally), so this only saves time.
set -uo pipefail
cd /verif
export CARGO_NET_OFFLINE=true
mkdir -p .build .work evidence
python3 -m model.selftest --full || { echo "model self-test failed"; exit 1; }
python3 - <<'PY'
import sys
sys.path.insert(0, '/verif')
from lib import gen
gen._small_order_base(1); gen._small_order_base(2)
print("small-order point cache ready")
PY
rc=0
for v in rel chk; do
  tools/build_driver.sh $v >/dev/null || rc=1
done
# sanitizer builds are only used by C20; a failure here is reported by that check as INCONCLUSIVE
tools/build_driver.sh asan >/dev/null || echo "warning: asan build failed"
tools/build_driver.sh tsan >/dev/null || echo "warning: tsan build failed"
# warm the Miri sysroot and dependency build
CRATE=.build/crate-$(echo -n "$(readlink -f ${VERIF_REPO:-/repo})" | md5sum | cut -c1-8)
printf '1 fq.add q:1 q:2\n' > .work/miri-warm.txt
( cd "$CRATE" && CARGO_TARGET_DIR=/verif/.build/target-miri MIRIFLAGS="-Zmiri-disable-isolation" cargo +nightly miri run --offline -q -- /verif/.work/miri-warm.txt /verif/.work/miri-warm.log >/dev/null 2>&1 ) || echo "warning: miri warm-up failed"
rm -f .work/miri-warm.*
exit $rc
