"""C02 — every scalar-multiplication path computes [k]P."""
from lib import harness as H, spec, vals as V, gen as G
from model.params import Q, R
from model.curves import E1, E2, g1_gen, g2_gen

ID = "C02"
BUILDS = ("rel", "chk")
RULE = ("paths: mul_assign, CurveAffine::mul, mul_precomp_3 and mul_precomp_256 (tables from the library's precomp "
        "routines) on every scalar of the structured set (0, 1, r-1, r, r+1, 2^255-1, 2^255, 2^256-1, every 2^i, bit "
        "runs straddling every 32/64-bit boundary, all-ones words, long carry runs) plus random 256-bit scalars; wNAF: "
        "wnaf_table/wnaf_form/wnaf_exp for EVERY window 2..=22 in both groups (k < 2^255), Wnaf::base(..).scalar(..) and "
        "Wnaf::scalar(..).base(..) with and without shared(); histories: one Wnaf context reused for 5-40 staged calls "
        "whose num_scalars / scalar bit-lengths sit around every recommendation threshold so that consecutive calls change "
        "the window; recommendations for every bit-length and around every threshold. All results are compared with one "
        "independent model double-and-add per (P,k). A case is (op, group, scalar class, point class, window, outcome, "
        "build), classes re-derived by the monitor; distinct_nontrivial counts the distinct keys")
RULE += (" " + 'The scalar set contains the computed ladder coincidences: for each ladder shape in the code (double-and-add, 4x64 and 8x32 combs, wNAF) the scalars for which the accumulator equals +- the entry it adds (mod r).')
ASSUMPTIONS = ["model scalar multiplication: affine double-and-add", "wNAF digit strings are logged but are not a verdict (the property does not fix a recoding)"]
EXHAUSTIVE = ["wNAF window sizes 2..=22 for G1 and G2 (each table built and used)", "recommended_wnaf_for_scalar for every bit-length 0..=255",
              "recommended_wnaf_for_num_scalars at every threshold-1, threshold, threshold+1"]
MIN_EVALS = {"quick": 8000, "thorough": 100000}

REC1 = [1, 3, 7, 20, 43, 120, 273, 563, 1630, 3128, 7933, 62569]
REC2 = [1, 3, 8, 20, 47, 126, 260, 826, 1501, 4555, 84071]


def plan(tier, seed):
    shards, no = [], 0
    q = tier == "quick"
    for g in (1, 2):
        npts = 2 if q else 6
        nchunk = 4 if q else 8
        for pi in range(npts):
            for ch in range(nchunk):
                shards.append(dict(no=no, g=g, part="paths", pi=pi, ch=ch, nch=nchunk)); no += 1
        shards.append(dict(no=no, g=g, part="odd_points")); no += 1
        for w in range(2, 23):
            if w >= 17:
                shards.append(dict(no=no, g=g, part="windows", ws=[w])); no += 1
        shards.append(dict(no=no, g=g, part="windows", ws=list(range(2, 10)))); no += 1
        shards.append(dict(no=no, g=g, part="windows", ws=list(range(10, 17)))); no += 1
        for i in range(4 if q else 60):
            shards.append(dict(no=no, g=g, part="ctx", idx=i)); no += 1
        shards.append(dict(no=no, g=g, part="rec")); no += 1
    # big tables first so that they overlap with the rest
    shards.sort(key=lambda s: -max(s.get("ws", [0])))
    for i, s in enumerate(shards):
        s["no"] = i
    return shards


def run_shard(shard, tier, seed, wd, res):
    g, part = shard["g"], shard["part"]
    rng = G.rng_for(seed, ID, g, part, shard.get("pi", 0), shard.get("ch", 0), shard.get("idx", 0), tuple(shard.get("ws", [])))
    s = H.Script()
    gp = "g%d" % g
    c = E1 if g == 1 else E2
    gen = g1_gen() if g == 1 else g2_gen()
    q = tier == "quick"
    if part == "paths":
        prng = G.rng_for(seed, ID, g, "pt", shard["pi"])
        P = gen if shard["pi"] == 0 else G.subgroup_point(g, prng)
        ks = G.structured_scalars(G.rng_for(seed, ID, "ks"), full256=True, extra_random=30 if q else 400)
        ks = ks[shard["ch"]:: shard["nch"]]
        A = V.aff(g, P)
        lam = G.rand_fe(g, rng)
        Pj = V.proj(g, *G.rescale(g, P, lam))
        pre3 = s.op(gp + ".precomp3", A)
        pre256 = s.op(gp + ".precomp256", A)
        ctx = s.op(gp + ".ctx_new")
        small = []
        for k in ks:
            s.op(gp + ".mul", Pj, V.RR(k))
            s.op(gp + ".amul", A, V.RR(k))
            s.op(gp + ".mul_pre3", A, V.RR(k), pre3)
            s.op(gp + ".mul_pre256", A, V.RR(k), pre256)
            if k < R and rng.random() < 0.2:
                # the scalar handed over as a field element (the parameter is generic: S: Into<Repr>)
                s.op(gp + ".mulfr", Pj, V.r(k))
                s.op(gp + ".mul_re", Pj, V.RR(k)); s.op(gp + ".amul_re", A, V.RR(k))
                s.op(gp + ".mul_pre3_re", A, V.RR(k), pre3); s.op(gp + ".mul_pre256_re", A, V.RR(k), pre256)
                which = rng.randrange(3)
                s.op(gp + (".amul", ".mul_pre3", ".mul_pre256")[which], A, V.r(k), *([], [pre3], [pre256])[which])
            if k < (1 << 255):
                small.append(k)
        # wNAF through the public context API, both staging orders, with and without shared()
        for i in range(0, len(small), 16):
            chunk = small[i:i + 16]
            num = rng.choice([1, 2, 5, 30, 200, len(chunk)])
            s.op(gp + ".ctx_base", ctx, Pj, V.n(num), V.lst([V.RR(k) for k in chunk]), V.n(rng.getrandbits(1)))
        for k in small[:: 5]:
            s.op(gp + ".ctx_scalar", ctx, V.RR(k), V.lst([Pj, V.proj(g, P[0], P[1], (1 if g == 1 else (1, 0)))]), V.n(rng.getrandbits(1)))
        # identity base on every path (plain, table-driven, wNAF in both staging orders, raw wNAF primitives)
        O = V.aff(g, None)
        preO3 = s.op(gp + ".precomp3", O)
        preO256 = s.op(gp + ".precomp256", O)
        for k in (0, 1, R, (1 << 256) - 1, rng.getrandbits(256)):
            Oj = V.proj(g, *G.identity_rep(g, G.rand_fe(g, rng)))
            s.op(gp + ".mul", Oj, V.RR(k))
            s.op(gp + ".amul", O, V.RR(k))
            s.op(gp + ".mul_pre3", O, V.RR(k), preO3)
            s.op(gp + ".mul_pre256", O, V.RR(k), preO256)
            kk = k & ((1 << 255) - 1)
            s.op(gp + ".ctx_base", ctx, Oj, V.n(rng.choice([1, 10])), V.lst([V.RR(kk), V.RR(1)]))
            s.op(gp + ".ctx_scalar", ctx, V.RR(kk), V.lst([Oj, Pj]))
        tO = s.op(gp + ".wnaf_table", V.proj(g, *G.identity_rep(g, G.rand_fe(g, rng))), V.n(3))
        s.op(gp + ".wnaf_exp", tO, s.op(gp + ".wnaf_form", V.RR(rng.getrandbits(255)), V.n(3)))
    elif part == "odd_points":
        # plain paths on arbitrary curve points: small order, order r*l, full order
        so = G.small_order_points(g, rng)
        pts = list(so.values()) + [G.order_rl_point(g, rng, min(so)), c.random_point(rng)]
        ks = [0, 1, 2, 3, 11, 13, R - 1, R, R + 1, (1 << 256) - 1, (1 << 255), rng.getrandbits(256), rng.getrandbits(255), rng.getrandbits(64)]
        for P in pts:
            for lam in G.special_lambdas(g, rng):
                s.op(gp + ".mul", V.proj(g, *G.rescale(g, P, lam)), V.RR(rng.getrandbits(256)))
            for k in ks:
                s.op(gp + ".mul", V.proj(g, *G.rescale(g, P, G.rand_fe(g, rng))), V.RR(k))
                s.op(gp + ".amul", V.aff(g, P), V.RR(k))
    elif part == "windows":
        P = G.subgroup_point(g, rng)
        ks = G.structured_scalars(G.rng_for(seed, ID, "ksw"), full256=False, extra_random=10)
        for w in shard["ws"]:
            big = w >= 17
            Pj = V.proj(g, *G.rescale(g, P, G.rand_fe(g, rng)))
            tab = s.op(gp + ".wnaf_table", Pj, V.n(w))
            for i in (0, 1, (1 << (w - 1)) - 1, rng.randrange(1 << (w - 1)), rng.randrange(1 << (w - 1))):
                s.op(gp + ".wnaf_tab_entry", tab, V.n(i))
            n = (8 if big else 14) if q else (50 if big else 120)
            sel = [0, 1, (1 << 255) - 1, R - 1, (1 << w) - 1, (1 << w), (1 << (w + 1)) - 1, (1 << (w - 1)) + 1,
                   ((1 << w) + 1) << (255 - w - 1)] + G.wnaf_coincidences(w) + [rng.choice(ks) for _ in range(n)] + [rng.getrandbits(255) for _ in range(n // 2)]
            for k in sel:
                d = s.op(gp + ".wnaf_form", V.RR(k), V.n(w))
                s.op(gp + ".wnaf_exp", tab, d)
    elif part == "ctx":
        if shard.get("idx", 0) == 0:
            # one staged table / digit string used for MANY scalars / bases (block-wise processing would show here)
            nmany = 70 if q else 300
            Pm = G.subgroup_point(g, rng)
            ctxm = s.op(gp + ".ctx_new")
            pool = [rng.getrandbits(255) for _ in range(12)]
            s.op(gp + ".ctx_base", ctxm, V.proj(g, *G.rescale(g, Pm, G.rand_fe(g, rng))), V.n(nmany),
                 V.lst([V.RR(pool[(i_ * 5 + i_ // 12) % 12] if i_ % 3 else (1 << (i_ % 255))) for i_ in range(nmany)]))
            bases = [V.proj(g, *G.rescale(g, Pm, G.rand_fe(g, rng))) for _ in range(4)]
            s.op(gp + ".ctx_scalar", ctxm, V.RR(pool[0]), V.lst([bases[i_ % 4] for i_ in range(nmany)]))
        thr = REC1 if g == 1 else REC2
        bits = (34, 130) if g == 1 else (37, 103)
        for _ in range(3 if q else 6):
            ctx = s.op(gp + ".ctx_new")
            bases = [G.subgroup_point(g, rng) for _ in range(3)]
            for _ in range(rng.randrange(5, 41)):
                P = rng.choice(bases)
                Pj = V.proj(g, *G.rescale(g, P, G.rand_fe(g, rng)))
                if rng.random() < 0.5:
                    t = rng.choice(thr[:9] if rng.random() < 0.85 else thr)
                    num = max(0, t + rng.choice([-1, 0, 1, 1]))
                    ks = [rng.getrandbits(rng.choice([1, 8, 64, 200, 255, 255])) for _ in range(rng.randrange(1, 4))]
                    s.op(gp + ".ctx_base", ctx, Pj, V.n(num), V.lst([V.RR(k) for k in ks]), V.n(rng.random() < 0.3))
                else:
                    b = rng.choice(bits) + rng.choice([-2, -1, 0, 1]) if rng.random() < 0.7 else rng.randrange(1, 256)
                    k = rng.getrandbits(max(1, min(255, b))) | (1 << (max(1, min(255, b)) - 1))
                    bs = [V.proj(g, *G.rescale(g, rng.choice(bases), G.rand_fe(g, rng))) for _ in range(rng.randrange(1, 4))]
                    s.op(gp + ".ctx_scalar", ctx, V.RR(k), V.lst(bs), V.n(rng.random() < 0.3))
    else:  # rec
        for i in range(256):
            s.op(gp + ".rec_scalar", V.RR(1 << i))
            s.op(gp + ".rec_scalar", V.RR((1 << i) - 1))
        s.op(gp + ".rec_scalar", V.RR((1 << 256) - 1))
        for t in sorted(set(REC1 + REC2)):
            for d in (-1, 0, 1):
                s.op(gp + ".rec_num", V.n(max(0, t + d)))
        for v in [0, 1 << 20, 1 << 31, (1 << 32) - 1, 1 << 32, (1 << 62), (1 << 63) - 1, -(1 << 63), -2, -1] +  [rng.getrandbits(rng.randrange(1, 40)) for _ in range(100)]:
            s.op(gp + ".rec_num", V.n(v))
    H.monitor_script(__import__("props.c02", fromlist=["x"]), s.text(), BUILDS, wd, res, shard, timeout=1500)


def judge(ctx, rec, res):
    v = spec.judge(ctx, rec, res)
    name = rec.op.split(".")[1]
    g = rec.op[:2]
    key = None
    if name in ("mul", "amul", "mul_pre3", "mul_pre256", "mulfr"):
        P = spec.pt(rec.args[0])[1]
        pc = "O" if P is None else ("gen" if P == (g1_gen() if g == "g1" else g2_gen()) else G.point_class(1 if g == "g1" else 2, P))
        key = (rec.op, G.kclass(rec.args[1][1]), pc, rec.status, ctx.build)
    elif name == "wnaf_exp":
        d = ctx.recs[rec.srcs[1]]
        key = (rec.op, "w=%d" % d.args[1][1], G.kclass(d.args[0][1]), rec.status, ctx.build)
        res.info["window %s w=%d" % (g, d.args[1][1])] += 1
    elif name == "wnaf_table":
        key = (rec.op, "w=%d" % rec.args[1][1], rec.status, ctx.build)
    elif name == "ctx_base":
        key = (rec.op, "num=%d" % rec.args[2][1], "shared" if len(rec.args) > 4 and rec.args[4][1] else "plain", rec.status, ctx.build)
        res.info["ctx calls"] += 1
    elif name == "ctx_scalar":
        key = (rec.op, "bits=%d" % rec.args[1][1].bit_length(), "shared" if len(rec.args) > 3 and rec.args[3][1] else "plain", rec.status, ctx.build)
        res.info["ctx calls"] += 1
    elif name in ("rec_scalar", "rec_num") and rec.status == "ok":
        key = (rec.op, rec.outs[0][1], ctx.build)
    if key is not None:
        res.classes[key] += 1
    if len(res.samples) < 6 and name in ("wnaf_exp", "mul_pre256", "ctx_base") and rec.status == "ok" and rec.id % 7 == 0:
        res.samples.append(dict(build=ctx.build, op=rec.line[:400], observed=" ".join(V.fmt(o) if o[0] != "l" else "l:(%d points)" % len(o[1]) for o in rec.outs)[:300]))
    return v


def missing_classes(res, tier):
    return ["window %s w=%d" % (g, w) for g in ("g1", "g2") for w in range(2, 23) if res.info.get("window %s w=%d" % (g, w), 0) == 0]
