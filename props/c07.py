"""C07 — safe API results stay in the order-r subgroup; the membership test is exact."""
from lib import harness as H, spec, vals as V, gen as G
from model.params import Q, R
from model import encoding as EN
from model.curves import E1, E2, FQ, FQ2, Curve, g1_gen, g2_gen
from props import c04

ID = "C07"
BUILDS = ("rel", "chk")
RULE = ("(a) SubgroupCheck::in_subgroup on affine values built from arbitrary coordinate pairs: identity (flag with "
        "canonical and with junk coordinates), subgroup points, a point of every prime order dividing the cofactor, "
        "points of order r*l, full-order curve points, points of the twists y^2 = x^3 + b' for other b', off-curve pairs; "
        "compared with the model predicate inf or (on curve and [r]P = O). (b) invariant monitor over programs of 10-60 "
        "safe operations (one, random under seeded RNGs, arithmetic, mul, wNAF contexts, MSM, precomputation tables, "
        "decoders on hostile bytes, deserialisers, hash/encode/map outputs, batch normalisation) started from valid inputs: "
        "EVERY point an operation hands out is tested with the model predicate and with the library's own predicate, and "
        "both must say 'member'. A case is (producing op, group, model order class of the tested point, predicate value, "
        "build); validity of inputs is derived by the monitor from the op graph, not from generator labels")
ASSUMPTIONS = ["model predicate: curve equation and multiplication by r with the affine model"]
MIN_EVALS = {"quick": 2500, "thorough": 60000}

SAFE = {"one", "aone", "zero", "azero", "random", "add", "sub", "addm", "subm", "dbl", "neg", "aneg", "mul", "amul", "mulfr",
        "to_affine", "to_proj", "to_affine_from", "to_proj_from", "batch_norm", "ctx_base", "ctx_scalar", "msm", "msm_pip",
        "msm_pre256", "precomp3", "precomp256", "mul_pre3", "mul_pre256", "dec_c", "dec_u", "hash", "encode", "map", "map2"}


def plan(tier, seed):
    shards, no = [], 0
    q = tier == "quick"
    for g in (1, 2):
        for i in range(2 if q else 24):
            shards.append(dict(no=no, g=g, part="predicate", idx=i)); no += 1
        for i in range(8 if q else 200):
            shards.append(dict(no=no, g=g, part="closure", idx=i)); no += 1
    return shards


def twist_points(g, rng, n):
    f = FQ if g == 1 else FQ2
    out = []
    for _ in range(n):
        b2 = f.small(rng.choice([1, 2, 3, 5, 7, 11])) if g == 1 else (rng.randrange(1, 9), rng.randrange(0, 9))
        if b2 == (4 if g == 1 else (4, 4)):
            continue
        cv = Curve(f, f.zero, b2, "twist")
        out.append(cv.random_point(rng))
    return out


def run_shard(shard, tier, seed, wd, res):
    g, part = shard["g"], shard["part"]
    rng = G.rng_for(seed, ID, g, part, shard["idx"])
    s = H.Script()
    gp = "g%d" % g
    c = E1 if g == 1 else E2
    f = FQ if g == 1 else FQ2
    gen = g1_gen() if g == 1 else g2_gen()
    if part == "predicate":
        vals = [V.aff(g, None), V.aff(g, gen)]
        vals.append(("a%d" % g, (f.rand(rng), f.rand(rng), True)))            # identity flag with junk coordinates
        vals.append(("a%d" % g, (gen[0], gen[1], True)))
        for _ in range(6):
            vals.append(V.aff(g, G.subgroup_point(g, rng)))
        so = G.small_order_points(g, rng, include_big=(shard["idx"] == 0))
        for l, P in so.items():
            vals.append(V.aff(g, P))
            vals.append(V.aff(g, c.neg(P)))
        for l in list(so)[:3]:
            if l < (1 << 64):
                vals.append(V.aff(g, G.order_rl_point(g, rng, l)))
        for _ in range(6):
            vals.append(V.aff(g, c.random_point(rng)))
        for P in twist_points(g, rng, 8):
            vals.append(V.aff(g, P))
        # order-r points of ISOMORPHIC twists: (l^2 x, l^3 y) of a subgroup point lies on y^2 = x^3 + l^6 b and is
        # annihilated by r under the a = 0 group formulas (which never look at b) - only the curve equation rejects it
        for _ in range(6):
            P = G.subgroup_point(g, rng)
            lam = f.small(rng.choice([2, 3, 5])) if rng.random() < 0.5 else G.rand_fe(g, rng)
            l2 = f.mul(lam, lam)
            S = (f.norm(f.mul(P[0], l2)), f.norm(f.mul(P[1], f.mul(l2, lam))))
            if not c.on_curve(S):
                vals.append(V.aff(g, S))
        if g == 2:
            # a G1 point read as a pair over Fq2 (c1 = 0): on y^2 = x^3 + 4, not on E'
            P1 = G.subgroup_point(1, rng)
            vals.append(("a2", ((P1[0], 0), (P1[1], 0), False)))
            vals.append(("a2", ((0, P1[0]), (0, P1[1]), False)))
        for _ in range(8):
            vals.append(("a%d" % g, (f.rand(rng), f.rand(rng), False)))       # off-curve pairs
        P = G.subgroup_point(g, rng)
        vals.append(("a%d" % g, (P[0], f.norm(f.add(P[1], f.one)), False)))
        vals.append(("a%d" % g, (f.norm(f.add(P[0], f.one)), P[1], False)))
        vals.append(("a%d" % g, (f.zero, f.zero, False)))
        if g == 1:
            vals.append(("a1", (0, 2, False)))      # (0, 2): on E, order 3
            vals.append(("a1", (0, Q - 2, False)))
        for v in vals:
            s.op(gp + ".in_subgroup", v)
    else:
        closure_program(s, g, rng, tier)
    H.monitor_script(__import__("props.c07", fromlist=["x"]), s.text(), BUILDS, wd, res, shard)


def closure_program(s, g, rng, tier):
    gp = "g%d" % g
    c = E1 if g == 1 else E2
    gen = g1_gen() if g == 1 else g2_gen()
    tested = []

    def test(ref):
        """ask the library's own predicate about a projective result"""
        s.op(gp + ".in_subgroup", s.op(gp + ".to_affine", ref))

    def test_aff(ref):
        s.op(gp + ".in_subgroup", ref)

    regs = []
    regs.append(s.op(gp + ".one"))
    r = s.op(gp + ".random", V.b(bytes(rng.getrandbits(8) for _ in range(16))), V.n(3))
    regs += [r[0], r[1], r[2]]
    regs.append(s.op(gp + ".hash", V.s(rng.choice(["sha256", "sha512", "shake128", "shake256"])), V.b(bytes(rng.getrandbits(8) for _ in range(rng.randrange(0, 40)))), V.b(b"verif-C07")))
    regs.append(s.op(gp + ".encode", V.s("sha256"), V.b(b"m%d" % rng.getrandbits(30)), V.b(b"")))
    fe = G.rand_fe(g, rng, nonzero=False)
    fe_t = ("q", fe) if g == 1 else ("q2", fe)
    regs.append(s.op(gp + ".map", fe_t))
    regs.append(s.op(gp + ".map2", fe_t, fe_t if rng.random() < 0.3 else (("q", G.rand_fe(1, rng)) if g == 1 else ("q2", G.rand_fe(2, rng)))))
    from props import c14
    for t0, t1 in c14.coinciding_inputs(g, rng, want=1, tries=40):
        T_ = (lambda v: ("q", v)) if g == 1 else (lambda v: ("q2", v))
        regs.append(s.op(gp + ".map2", T_(t0), T_(t1)))
    P = G.subgroup_point(g, rng)
    comp = rng.random() < 0.5
    d = s.op(gp + (".dec_c" if comp else ".dec_u"), V.b(EN.encode(g, P, comp)))
    test_aff(d)
    regs.append(s.op(gp + ".to_proj", d))
    # decoders on hostile strings: whatever they accept must be a member
    cands = c04.candidates(g, rng, 1)
    for tag, Pc in rng.sample(cands, 5):
        b = bytearray(c04.raw_encode(g, Pc, comp))
        b[0] = (b[0] & 0x1f) | (rng.choice([0x80, 0xa0, 0x80, 0xc0]) if comp else rng.choice([0, 0, 0x40]))
        dd = s.op(gp + (".dec_c" if comp else ".dec_u"), V.b(bytes(b)))
        test_aff(dd)
    # deserialisers on hostile streams (every type, both flags): whatever they accept must be a member
    for tag, Pc in rng.sample(cands, 6):
        for cflag in (True, False):
            b = bytearray(c04.raw_encode(g, Pc, cflag))
            if rng.random() < 0.2:
                b[0] ^= 0x20
            for ty in ("g%d" % g, "g%da" % g):
                dd = s.op("deser", V.s(ty), V.b(bytes(b) + bytes(8)), V.t(cflag), V.n(rng.choice([0, 1])), V.n(-1))
                if ty.endswith("a"):
                    test_aff(dd)
                else:
                    test(dd)
    for x in regs:
        test(x)
    steps = rng.randrange(10, 61) if tier != "quick" else rng.randrange(10, 30)
    for _ in range(steps):
        a, b2 = rng.choice(regs), rng.choice(regs)
        r = rng.random()
        if r < 0.2:
            o = s.op(gp + rng.choice([".add", ".sub"]), a, b2)
        elif r < 0.3:
            o = s.op(gp + rng.choice([".dbl", ".neg"]), a)
        elif r < 0.4:
            o = s.op(gp + rng.choice([".addm", ".subm"]), a, s.op(gp + ".to_affine", b2))
        elif r < 0.55:
            k = rng.choice([0, 1, R, R - 1, rng.getrandbits(256), rng.getrandbits(64)])
            if rng.random() < 0.5:
                o = s.op(gp + ".mul", a, V.RR(k))
            else:
                o = s.op(gp + ".amul", s.op(gp + ".to_affine", a), V.RR(k))
        elif r < 0.65:
            ctx = s.op(gp + ".ctx_new")
            l = s.op(gp + ".ctx_base", ctx, a, V.n(rng.choice([1, 4, 50])), V.lst([V.RR(rng.getrandbits(255)) for _ in range(2)]))
            o = l[0]
            test(l[1])
        elif r < 0.75:
            pts = V.lst([s.op(gp + ".to_affine", rng.choice(regs)) for _ in range(rng.randrange(1, 5))])
            ks = V.lst([V.RR(rng.getrandbits(255)) for _ in range(rng.randrange(1, 5))])
            o = s.op(gp + rng.choice([".msm", ".msm_pre256"]), pts, ks) if rng.random() < 0.7 else s.op(gp + ".msm_pip", pts, ks, V.n(rng.randrange(1, 9)))
        elif r < 0.82:
            aa = s.op(gp + ".to_affine", a)
            pre = s.op(gp + ".precomp3", aa)
            test_aff(pre[rng.randrange(3)])
            o = s.op(gp + ".mul_pre3", aa, V.RR(rng.getrandbits(256)), pre)
        elif r < 0.88:
            aa = s.op(gp + ".to_affine", a)
            pre = s.op(gp + ".precomp256", aa)
            test_aff(pre[rng.randrange(256)])
            test_aff(pre[rng.choice([1, 2, 4, 128, 255])])
            o = s.op(gp + ".mul_pre256", aa, V.RR(rng.getrandbits(256)), pre)
        elif r < 0.94:
            bn = s.op(gp + ".batch_norm", V.lst([a, b2, rng.choice(regs)]))
            o = bn[rng.randrange(3)]
        else:
            ser = s.op("ser", a, V.t(rng.random() < 0.5), V.n(0), V.n(-1))
            # the compressed flag of deser must match: recorded through two attempts, one of which succeeds
            d1 = s.op("deser", V.s("g%d" % g), ser, V.t(True), V.n(0), V.n(-1))
            d2 = s.op("deser", V.s("g%d" % g), ser, V.t(False), V.n(0), V.n(-1))
            test(d1)
            test(d2)
            o = a
        test(o)
        regs[rng.randrange(len(regs))] = o


def point_outputs(rec):
    out = []
    for o in rec.outs:
        if o[0] in ("p1", "a1", "p2", "a2"):
            out.append(o)
        elif o[0] == "l":
            out += [x for x in o[1] if x[0] in ("p1", "a1", "p2", "a2")]
    return out


def valid(ctx, rec):
    """all point operands of `rec` are members (literals checked with the model, registers by recursion)"""
    memo = ctx.cache.setdefault("valid", {})
    if rec.id in memo:
        return memo[rec.id]
    ok = True
    name = rec.op.split(".")[-1]
    if name in ("dec_c", "dec_u", "hash", "encode", "map", "map2", "one", "aone", "zero", "azero", "random", "deser"):
        ok = True   # any input is a valid input for these
    else:
        def chk(a, srcid):
            if isinstance(srcid, list):
                return all(chk(x, sid) for x, sid in zip(a[1], srcid))
            if a[0] == "l":
                return all(chk(x, None) for x in a[1])
            if a[0] not in ("p1", "a1", "p2", "a2"):
                return True
            if isinstance(srcid, int):
                src = ctx.recs[srcid]
                return src.op.split(".")[-1] in SAFE | {"deser"} and valid(ctx, src)
            g, P = spec.pt(a)
            return spec.in_sub(g, P)
        ok = all(chk(a, sid) for a, sid in zip(rec.args, rec.srcs))
    memo[rec.id] = ok
    return ok


def judge(ctx, rec, res):
    name = rec.op.split(".")[-1]
    if rec.op in ("ser", "deser") or name in ("ctx_new",):
        v = spec.judge(ctx, rec, res) if rec.op != "deser" else None  # deser with the wrong flag legitimately fails
        if rec.status == "panic":
            return "no panic"
    else:
        v = spec.judge(ctx, rec, res)
    if v is not None:
        return v
    g = 1 if (rec.op.startswith("g1") or (rec.op == "deser" and rec.args[0][1] == "g1")) else 2
    if name == "in_subgroup":
        P = spec.pt(rec.args[0])[1]
        src = ctx.recs[rec.srcs[0]] if isinstance(rec.srcs[0], int) else None
        while src is not None and src.op.split(".")[-1] in ("to_affine",) and isinstance(src.srcs[0], int):
            src = ctx.recs[src.srcs[0]]
        origin = src.op if src is not None else "literal"
        cl = G.point_class(g, P) if (E1 if g == 1 else E2).on_curve(P) else "off-curve"
        if rec.args[0][1][2] and not spec.canonical_affine(rec.args[0]):
            cl = "O(junk coords)"
        res.classes[(origin, cl, rec.status == "ok" and rec.outs[0][1], ctx.build)] += 1
        if src is not None and src.op.split(".")[-1] in SAFE | {"deser"} and valid(ctx, src):
            res.evals += 1
            res.info["outputs of safe ops tested"] += 1
            if not spec.in_sub(g, P):
                return "a member of the order-r subgroup (output of %s on valid inputs)" % src.op
            if rec.status != "ok" or rec.outs[0][1] is not True:
                return "in_subgroup() = true for the output of %s" % src.op
        if len(res.samples) < 6 and cl not in ("r", "O") and origin == "literal":
            res.samples.append(dict(build=ctx.build, op=rec.line[:300], model_class=cl, observed=rec.status + " " + " ".join(V.fmt(o) for o in rec.outs)))
    elif rec.status == "ok" and name in SAFE | {"deser"} and valid(ctx, rec):
        # direct model check of every point handed out (also those the script does not feed to in_subgroup)
        for o in point_outputs(rec)[:4]:
            res.evals += 1
            og, P = spec.pt(o)
            if not spec.in_sub(og, P):
                return "every returned point in the order-r subgroup"
    return None
