"""C09 — Fq2, Fq6, Fq12 are the stated tower; Frobenius and sparse products are exact."""
from lib import harness as H, spec, vals as V, gen as G
from model.params import Q
from model import fields as F

ID = "C09"
BUILDS = ("rel", "chk")
RULE = ("for each of Fq2/Fq6/Fq12: structured elements (0, 1, -1, u, v, w, subfield elements, every pattern of zero "
        "components among a sampled set, boundary coefficients) crossed for the binary ops, all ops on seeded random "
        "elements, frobenius_map for every k mod 12 (plus 2^32+5 and usize::MAX) and the sparse products with sparse "
        "operands having zero parts; a case is (op, field, zero-pattern class of each operand, k mod 12 for frobenius, "
        "build); distinct_nontrivial counts the distinct keys observed")
ASSUMPTIONS = ["CPython integers; schoolbook quotient-ring model cross-checked against the flat model Fq[w]/(w^12-2w^6+2)",
               "Frobenius defined as the Fq-algebra map w -> w^(q^k), spot-checked against x^(q^k) in the model self-test"]
EXHAUSTIVE = ["Frobenius powers k mod 12 (0..11) on every tower level", "all 2^n zero-patterns of the sparse operands"]
MIN_EVALS = {"quick": 30000, "thorough": 1000000}

NCO = {"fq2": 2, "fq6": 6, "fq12": 12}
MK = {"fq2": lambda c: ("q2", (c[0], c[1])), "fq6": lambda c: ("q6", F.f6_from_coeffs(c)), "fq12": lambda c: ("q12", F.f12_from_coeffs(c))}


def rand_coeffs(rng, n, zero_mask=0):
    return [0 if (zero_mask >> i) & 1 else rng.randrange(Q) for i in range(n)]


def structured(fam, rng):
    n = NCO[fam]
    out = []
    unit = lambda i, v=1: [v if j == i else 0 for j in range(n)]
    out.append([0] * n)
    for i in range(n):
        out.append(unit(i))
        out.append(unit(i, Q - 1))
    out.append([Q - 1] * n)
    out.append([(Q - 1) // 2] * n)
    out.append([(1 << 384) % Q] * n)
    # subfield elements
    out.append([rng.randrange(Q)] + [0] * (n - 1))                       # Fq
    if n > 2:
        out.append([rng.randrange(Q), rng.randrange(Q)] + [0] * (n - 2))  # Fq2
    if n == 12:
        out.append([rng.randrange(Q) for _ in range(6)] + [0] * 6)        # Fq6
        out.append([0] * 6 + [rng.randrange(Q) for _ in range(6)])
    # special-value patterns: every coefficient independently 0, 1, -1 or random (shortcuts keyed on one coefficient)
    for _ in range(60 if n <= 2 else 90):
        out.append([rng.choice([0, 1, Q - 1, rng.randrange(Q), rng.randrange(Q)]) for _ in range(n)])
    # coefficients that are special in the INTERNAL (Montgomery) representation: R^-1 (limbs [1,0,..]), limb patterns
    MB = sorted(G.mont_domain_boundary(Q))
    rinv = pow(1 << 384, -1, Q)
    for v in [rinv, Q - rinv, 2 * rinv % Q] + MB[:: max(1, len(MB) // 10)]:
        out.append([v] + [0] * (n - 1))
        out.append([v] + [rng.randrange(Q) for _ in range(n - 1)])
        out.append([rng.randrange(Q) for _ in range(n - 1)] + [v])
    if n == 2:
        for a in (0, 1, Q - 1):
            for b in (0, 1, Q - 1):
                out.append([a, b])
            out.append([a, rng.randrange(Q)])
            out.append([rng.randrange(Q), a])
    # coefficients that alias constants of the library: curve constant b = 4 resp. 4(1+u), the non-residue 1+u and its
    # inverse, the SWU constants Z, A', B' (Fq2 pairs placed in every Fq2 slot of the element)
    xi_inv = F.f2_inv((1, 1))
    for c0, c1 in [(4, 4), (1, 1), xi_inv, ((-2) % Q, (-1) % Q), (0, 240), (1012, 1012), (4, 0), (11, 0)]:
        for slot in range(0, n, 2) if n >= 2 else []:
            v = [0] * n
            v[slot], v[slot + 1] = c0, c1
            out.append(v)
            w_ = [rng.randrange(Q) for _ in range(n)]
            w_[slot], w_[slot + 1] = c0, c1
            out.append(w_)
    # elements with REPEATED components (equal Fq coefficients, equal Fq2 / Fq6 components)
    for _ in range(3):
        a_, b_ = rng.randrange(Q), rng.randrange(Q)
        out.append([a_] * n)
        out.append([a_ if i % 2 == 0 else (-a_) % Q for i in range(n)])
        out.append([b_, (-b_) % Q] + [rng.randrange(Q) for _ in range(n - 2)])
        if n >= 6:
            x_, y_ = [a_, b_], [rng.randrange(Q), rng.randrange(Q)]
            nx_, ny_ = [(-c) % Q for c in x_], [(-c) % Q for c in y_]
            # repeated components, and components that are negatives of each other (a linear relation INSIDE one operand)
            for pat in ("xyy", "xxy", "yxy", "xxx", "xyY", "xXy", "yxX", "xXx", "XxX", "xyz"):
                v = []
                for ch in pat:
                    v += {"x": x_, "y": y_, "X": nx_, "Y": ny_}.get(ch) or [(-(x_[i] + y_[i])) % Q for i in range(2)]    # z: x + y + z = 0
                out.append(v if n == 6 else v + [rng.randrange(Q) for _ in range(6)])
                if n == 12:
                    out.append([rng.randrange(Q) for _ in range(6)] + v)
                    out.append(v + v)
                    out.append(v + [(-c) % Q for c in v])
    # elements of the subfields that are NOT coefficient patterns of the tower: Fq3 in Fq6 / Fq12, Fq4 in Fq12 (traces)
    if n >= 6:
        for d in ((3,) if n == 6 else (3, 4)):
            for _ in range(3):
                x = F.f12_from_coeffs([rng.randrange(Q) for _ in range(n)] + [0] * (12 - n))
                acc = F.F12_ZERO
                for i in range((6 if n == 6 else 12) // d):
                    acc = F.f12_add(acc, F.f12_frobenius(x, d * i))
                out.append(F.f12_coeffs(acc)[:n])
    # zero patterns
    masks = range(1 << n) if n <= 6 else [rng.getrandbits(n) for _ in range(48)] + [(1 << n) - 1 - (1 << i) for i in range(n)]
    for mk in masks:
        out.append(rand_coeffs(rng, n, mk))
    return out


def plan(tier, seed):
    shards = []
    no = 0
    reps = 2 if tier == "quick" else 150
    for fam in ("fq2", "fq6", "fq12"):
        for part in ("grid", "frob", "sparse", "related"):
            shards.append(dict(no=no, fam=fam, part=part, idx=0)); no += 1
        for i in range(3 * reps if fam != "fq2" else 2 * reps):
            shards.append(dict(no=no, fam=fam, part="random", idx=i)); no += 1
    return shards


def run_shard(shard, tier, seed, wd, res):
    fam, part = shard["fam"], shard["part"]
    rng = G.rng_for(seed, ID, fam, part, shard["idx"])
    s = H.Script()
    n = NCO[fam]
    mk = MK[fam]
    rnd = lambda: mk(rand_coeffs(rng, n))
    r2 = lambda zm=0: ("q2", tuple(rand_coeffs(rng, 2, zm)))
    if part == "grid":
        S = structured(fam, rng)
        S2 = S[:: max(1, len(S) // 24)]
        for a in S:
            ta = mk(a)
            for op in ("neg", "dbl", "sqr", "inv", "is_zero"):
                s.op("%s.%s" % (fam, op), ta)
            if fam in ("fq2", "fq6"):
                s.op(fam + ".mul_nr", ta)
            if fam == "fq2":
                s.op("fq2.norm", ta)
            if fam == "fq12":
                s.op("fq12.conj", ta)
            for b in S2:
                for op in ("add", "sub", "mul"):
                    s.op("%s.%s" % (fam, op), ta, mk(b))
            s.op(fam + ".mul", ta, ta)
            s.op(fam + ".eq", ta, ta)
            s.op(fam + ".ne", ta, ta)
            # equality / inequality against elements that differ in exactly one coefficient
            for i_ in {0, n - 1, rng.randrange(n)}:
                a2 = list(a)
                a2[i_] = (a2[i_] + 1) % Q
                s.op(fam + ".eq", ta, mk(a2))
                s.op(fam + ".ne", ta, mk(a2))
        for op in ("zero", "one"):
            s.op("%s.%s" % (fam, op))
    elif part == "related":
        # binary operations whose operands are RELATED: an element with its negative, inverse, conjugate, Frobenius
        # images, square, non-residue multiple (the second operand is computed by the library itself)
        S = structured(fam, rng)
        S = S[:: max(1, len(S) // (30 if tier == "quick" else 150))] + [rand_coeffs(rng, n) for _ in range(10 if tier == "quick" else 100)]
        for a in S:
            ta = mk(a)
            rel = [s.op(fam + ".neg", ta), s.op(fam + ".sqr", ta), s.op(fam + ".dbl", ta)]
            for k in (1, 2, 3, 6):
                rel.append(s.op(fam + ".frob", ta, V.w(k)))
            if fam == "fq12":
                rel.append(s.op("fq12.conj", ta))
            if fam in ("fq2", "fq6"):
                rel.append(s.op(fam + ".mul_nr", ta))
            inv = s.op(fam + ".inv", ta)
            if any(a):
                rel.append(inv)
            for b in rel:
                for op in ("add", "sub", "mul", "eq", "ne"):
                    s.op("%s.%s" % (fam, op), ta, b)
                s.op(fam + ".mul", b, ta)
                s.op(fam + ".sub", b, ta)
            # operands that AGREE in part: one coefficient changed, one component (Fq2 / Fq6 block) kept and the rest
            # random, one component replaced - in both orders
            partial = []
            for i_ in {0, n - 1, rng.randrange(n)}:
                a2 = list(a)
                a2[i_] = (a2[i_] + rng.choice([1, Q - 1, rng.randrange(1, Q)])) % Q
                partial.append(a2)
            for blk in ({2} if n <= 6 else {2, 6}):
                for keep in range(0, n, blk):
                    a2 = [rng.randrange(Q) for _ in range(n)]
                    a2[keep:keep + blk] = a[keep:keep + blk]
                    partial.append(a2)
                    a3 = list(a)
                    a3[keep:keep + blk] = [rng.randrange(Q) for _ in range(blk)]
                    partial.append(a3)
            for a2 in partial:
                tb = mk(a2)
                for op in ("mul", "add", "sub", "eq"):
                    s.op("%s.%s" % (fam, op), ta, tb)
                s.op(fam + ".mul", tb, ta)
            # results that are 0 / 1 by construction, fed on
            z = s.op(fam + ".add", ta, rel[0])
            s.op(fam + ".inv", z)
            s.op(fam + ".is_zero", z)
            s.op(fam + ".mul", z, ta)
            if any(a):
                o = s.op(fam + ".mul", ta, inv)
                s.op(fam + ".inv", o)
                s.op(fam + ".mul", o, ta)
                s.op(fam + ".sqr", o)
                s.op(fam + ".frob", o, V.w(1))
    elif part == "frob":
        S = structured(fam, rng)
        S = S[:: max(1, len(S) // 10)] + [rand_coeffs(rng, n) for _ in range(6 if tier == "quick" else 40)]
        ks = list(range(0, 26)) + [(1 << 32) + 5, (1 << 64) - 1, (1 << 63) + 6, 12 * 1000003 + 7]
        for a in S:
            for k in ks:
                s.op(fam + ".frob", mk(a), V.w(k))
        # exponentiation by multi-limb exponents (0..12 limbs)
        for nl in (0, 1, 2, 6, 12):
            e = [rng.getrandbits(64) for _ in range(nl)]
            s.op(fam + ".pow", rnd(), V.w(*e))
        s.op(fam + ".pow", mk([0] * n), V.w())
        s.op(fam + ".pow", rnd(), V.w(0, 0))
        s.op(fam + ".pow", rnd(), V.w(1))
    elif part == "sparse":
        reps = 12 if tier == "quick" else 120
        if fam == "fq2":
            for _ in range(reps * 10):
                s.op("fq2.mul_nr", r2(rng.choice([0, 0, 1, 2])))
                s.op("fq2.norm", r2(rng.choice([0, 0, 1, 2])))
        elif fam == "fq6":
            # structured MULTIPLICANDS (repeated / opposite components, constants) against random sparse operands
            for a_ in structured("fq6", rng):
                s.op("fq6.mul_by_1", mk(a_), r2(0))
                s.op("fq6.mul_by_01", mk(a_), r2(0), r2(0))
            for _ in range(reps):
                for zm in range(4):
                    for zm2 in range(4):
                        a = mk(rand_coeffs(rng, 6, rng.choice([0, 0, 0, rng.getrandbits(6)])))
                        s.op("fq6.mul_by_1", a, r2(zm))
                        s.op("fq6.mul_by_01", a, r2(zm), r2(zm2))
        else:
            for a_ in structured("fq12", rng):
                s.op("fq12.mul_by_014", mk(a_), r2(0), r2(0), r2(0))
            for _ in range(reps):
                for zm in range(64):
                    a = mk(rand_coeffs(rng, 12, rng.choice([0, 0, 0, rng.getrandbits(12)])))
                    s.op("fq12.mul_by_014", a, r2(zm & 3), r2((zm >> 2) & 3), r2((zm >> 4) & 3))
    else:
        cnt = {"fq2": 3000, "fq6": 1200, "fq12": 500}[fam]
        for _ in range(cnt):
            a, b = rnd(), rnd()
            for op in ("add", "sub", "mul"):
                s.op("%s.%s" % (fam, op), a, b)
            for op in ("neg", "dbl", "sqr", "inv"):
                s.op("%s.%s" % (fam, op), a)
            s.op(fam + ".frob", a, V.w(rng.randrange(0, 1 << rng.choice([4, 8, 40]))))
            if fam == "fq2":
                s.op("fq2.mul_nr", a)
                s.op("fq2.norm", a)
            elif fam == "fq6":
                s.op("fq6.mul_nr", a)
                s.op("fq6.mul_by_1", a, r2())
                s.op("fq6.mul_by_01", a, r2(), r2())
            else:
                s.op("fq12.conj", a)
                s.op("fq12.mul_by_014", a, r2(), r2(), r2())
    H.monitor_script(__import__("props.c09", fromlist=["x"]), s.text(), BUILDS, wd, res, shard)


def zpat(v):
    ty, p = v
    if ty == "q2":
        c = list(p)
    elif ty == "q6":
        c = F.f6_coeffs(p)
    elif ty == "q12":
        c = F.f12_coeffs(p)
    else:
        return None
    nz = sum(1 for x in c if x)
    if nz == 0:
        return "zero"
    if nz == len(c):
        return "dense"
    return "z" + "".join("1" if x else "0" for x in c)


def judge(ctx, rec, res):
    v = spec.judge(ctx, rec, res)
    cls = []
    for a in rec.args:
        z = zpat(a)
        if z is not None:
            cls.append(z)
        elif a[0] == "w":
            cls.append("k%%12=%d" % (a[1][0] % 12) if rec.op.endswith(".frob") and a[1] else "w%d" % len(a[1]))
    key = (rec.op, tuple(cls), rec.status, ctx.build)
    res.classes[key] += 1
    if rec.op.endswith(".frob") and rec.args[1][1]:
        res.info["%s k mod 12 = %d" % (rec.op, rec.args[1][1][0] % 12)] += 1
    if len(res.samples) < 4 and rec.op.endswith((".frob", "mul_by_014")):
        res.samples.append(dict(build=ctx.build, op=rec.line[:400], status=rec.status))
    return v
