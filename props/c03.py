"""C03 — the pairing is bilinear, non-degenerate and is the standard ate pairing."""
from lib import harness as H, spec, vals as V, gen as G
from model.params import Q, R
from model import fields as F
from model import rfc9380 as RF
from model import selftest
from model.curves import E1, E2, g1_gen, g2_gen
from props import pairing_common as PC

ID = "C03"
BUILDS = ("rel", "chk")
RULE = ("Engine::pairing (affine and non-normalised projective inputs) and CurveAffine::pairing_with in both "
        "directions on P = [a]P0, Q = [b]Q0 with P0, Q0 in {generators, hash-derived points of unknown logarithm, identity} "
        "and a, b in {0, 1, 2, r-1, r, r+1, 2^255-1, random}, the multiples being computed by logged library calls. Oracle: "
        "(i) an independent textbook ate pairing (affine Miller loop on the twist, one exponentiation by 3(q^12-1)/r in "
        "Fq[w]/(w^12-2w^6+2)) of every distinct base pair, raised to a*b by the model => expected value of every call, "
        "compared coefficient-wise; (ii) on a sample the textbook pairing of the actual operands directly; (iii) "
        "result^r = 1 and result = 1 exactly when an operand is the identity; (iv) e(g1,g2) equals the RELIC literal. A "
        "case is (op, base-pair kind, class of a, class of b, representation, build)")
ASSUMPTIONS = ["textbook pairing model (reproduces the RELIC e(g1,g2) literal in the model self-test)", "scalars of the multiples are read from the logged mul calls, which are themselves judged against the model"]
MIN_EVALS = {"quick": 300, "thorough": 20000}

SCALARS = [0, 1, 2, R - 1, R, R + 1, (1 << 255) - 1, 1 << 255, (1 << 256) - 1, 2 * R + 3]
# scalars with a binary prefix congruent to 0 or +-1 mod r (the ladder's accumulator meets O / P / -P)
SCALARS += sorted({(pre << j) + t for pre in (R - 2, R - 1, R, R + 1, R + 2, R + 3) for j in (0, 1, 2) for t in range(1 << j) if (pre << j) + t < (1 << 256)})


def plan(tier, seed):
    q = tier == "quick"
    return [dict(no=i, idx=i) for i in range(48 if q else 800)]


def run_shard(shard, tier, seed, wd, res):
    rng = G.rng_for(seed, ID, shard["idx"])
    s = H.Script()
    idx = shard["idx"]
    # base points
    if idx % 3 == 0:
        P0, Q0 = V.aff(1, g1_gen()), V.aff(2, g2_gen())
    else:
        m = bytes(rng.getrandbits(8) for _ in range(8))
        P0 = V.aff(1, RF.hash_to_curve(1, "sha256", m, b"C03-G1"))
        Q0 = V.aff(2, RF.hash_to_curve(2, "sha256", m, b"C03-G2"))
    s.op("pairing", P0, Q0)
    s.op("pair_with_12", P0, Q0)
    s.op("pair_with_21", Q0, P0)
    O1, O2 = V.aff(1, None), V.aff(2, None)
    for a_, b_ in ((O1, Q0), (P0, O2), (O1, O2)):
        s.op("pairing", a_, b_)
        s.op("pair_with_12", a_, b_)
        s.op("pair_with_21", b_, a_)
    # identities given as projective values with non-trivial X, Y (Z = 0), converted by the library
    Oj1 = V.proj(1, *G.identity_rep(1, G.rand_fe(1, rng)))
    Oj2 = V.proj(2, *G.identity_rep(2, G.rand_fe(2, rng)))
    s.op("pairing_p", Oj1, s.op("g2.to_proj", Q0))
    s.op("pairing_p", s.op("g1.to_proj", P0), Oj2)
    s.op("pair_with_21", s.op("g2.to_affine", Oj2), P0)
    n = 4 if tier == "quick" else 8
    for j in range(n):
        if j < 2 or rng.random() < 0.4:
            a, b = rng.choice(SCALARS), rng.choice(SCALARS + [rng.getrandbits(255)])
        else:
            a, b = rng.getrandbits(255), rng.getrandbits(256)
        if rng.random() < 0.5:
            a, b = b, a
        # the multiples through both plain multiplication paths (affine mul and projective mul_assign)
        if rng.random() < 0.5:
            Pp = s.op("g1.amul", P0, V.RR(a))
        else:
            Pp = s.op("g1.mul", s.op("g1.to_proj", P0), V.RR(a))
        if rng.random() < 0.5:
            Qp = s.op("g2.amul", Q0, V.RR(b))
        else:
            Qp = s.op("g2.mul", s.op("g2.to_proj", Q0), V.RR(b))
        Pa, Qa = s.op("g1.to_affine", Pp), s.op("g2.to_affine", Qp)
        which = rng.randrange(4)
        if which == 0:
            s.op("pairing", Pa, Qa)
        elif which == 1:
            s.op("pairing_p", Pp, Qp)         # Into<Affine> from a non-normalised projective value
        elif which == 2:
            s.op("pair_with_12", Pa, Qa)
        else:
            s.op("pair_with_21", Qa, Pa)
        if rng.random() < 0.3:
            s.op("pairing", Pa, Qa)
            s.op("pair_with_21", Qa, Pa)
        if j < 2:
            # caller-defined argument types (G1: Into<G1Affine>, G2: Into<G2Affine>): a conversion that evaluates
            # pairings of its own, one that panics (caught by the caller), and the plain call again afterwards
            s.op("pairing_re", Pa, Qa, V.n(1))
            s.op("pairing_re", Pa, Qa, V.n(2))
            s.op("pairing", Pa, Qa)
            s.op("pairing_re", Pa, Qa, V.n(0))
    H.monitor_script(__import__("props.c03", fromlist=["x"]), s.text(), BUILDS, wd, res, shard)


def judge(ctx, rec, res):
    if rec.op.endswith("_re"):
        # the same entry point with caller-defined argument types whose conversion re-enters the library (mode 1) or
        # panics (mode 2: the caller's own panic, not judged; what follows it is)
        if rec.args[-1][1] == 2:
            return None if rec.status == "panic" else "the conversion's own panic to reach the caller"
        saved = rec.op
        rec.op = rec.op[:-3]
        try:
            return judge(ctx, rec, res)
        finally:
            rec.op = saved
    if rec.op not in ("pairing", "pairing_p", "pair_with_12", "pair_with_21"):
        return spec.judge(ctx, rec, res)
    i1, i2 = (1, 0) if rec.op == "pair_with_21" else (0, 1)
    B1, a, _ = PC.trace_scalar(ctx, rec, i1)
    B2, b, _ = PC.trace_scalar(ctx, rec, i2)
    P = spec.pt(rec.args[i1])[1]
    Qp = spec.pt(rec.args[i2])[1]
    if not (spec.in_sub(1, P) and spec.in_sub(2, Qp)):
        return None
    res.evals += 1
    if rec.status != "ok":
        return "a target-group element (observed %s)" % rec.status
    e = rec.outs[0][1]
    exp = PC.expected_product(ctx, [((B1, a), (B2, b))])
    if e != exp:
        return "e(P0,Q0)^(a*b) with the textbook e(P0,Q0): " + V.fmt(("q12", exp))[:400]
    trivial = P is None or Qp is None
    res.evals += 1
    if (e == F.F12_ONE) != trivial:
        return "value 1 exactly when an operand is the identity"
    res.evals += 1
    if F.f12_pow(e, R) != F.F12_ONE:
        return "an element of order dividing r"
    if not trivial and rec.id % 3 == 0:
        # the textbook pairing of the actual operands (not via bilinearity)
        res.evals += 1
        res.info["direct textbook comparisons"] += 1
        if PC.textbook(P, Qp) != e:
            return "the textbook pairing of the operands"
    g1g2 = (B1 == g1_gen() and B2 == g2_gen())
    if g1g2 and a == 1 and b == 1:
        res.evals += 1
        res.info["e(g1,g2) literal comparisons"] += 1
        if F.f12_coeffs(e) != selftest.E_G1_G2:
            return "the published e(g1,g2)"
    rep = "proj" if rec.op == "pairing_p" else "affine"
    res.classes[(rec.op, "gen" if g1g2 else ("O" if trivial and (B1 is None or B2 is None) else "hashed"),
                 G.kclass(a) if B1 is not None else "-", G.kclass(b) if B2 is not None else "-", rep, ctx.build)] += 1
    if len(res.samples) < 4 and not trivial and a not in (0, 1) and rec.op != "pairing":
        res.samples.append(dict(build=ctx.build, op=rec.line[:200], a=hex(a), b=hex(b), observed=V.fmt(rec.outs[0])[:200] + "..."))
    return None
