"""C16 — the isogeny maps are the RFC 11- and 3-isogenies and respect the group law."""
from lib import harness as H, spec, vals as V, gen as G
from model.params import Q, R
from model import fields as F
from model import rfc9380 as RF
from model import selftest
from model.curves import E1, E2, FQ, FQ2

ID = "C16"
BUILDS = ("rel", "chk")
RULE = ("(i) the LIVE coefficient tables (hook accessor) are compared coefficient-wise with the model's RFC tables and "
        "must satisfy the polynomial identity (x^3+A'x+B') YN^2 XD^3 = (XN^3 + b XD^3) YD^2 with deg XN = 11 / 3 and monic "
        "denominators - a complete decision of 'rational map E' -> E of that degree' for the tables in the tree under "
        "test; (ii) IsogenyMap::isogeny_map on sampled points of E'_1(Fq), E'_2(Fq2): random points (model square "
        "roots), SSWU outputs in the library's own representation, every point rescaled by lambda (representation "
        "independence), identity as (t^2,t^3,0), the rational kernel point(s) (roots of XD); image compared with the "
        "model's rational map; (iii) homomorphism: for triples (P, Q, P+Q) with the sum computed by the MODEL on E' "
        "(a != 0), incl. P = Q, P = -Q, Q = O and kernel points, the library's iso(P) + iso(Q) must equal iso(P+Q). "
        "A case is (op, group, point class, representation class, build)")
ASSUMPTIONS = ["frozen copy of the RFC appendix E tables validated by the polynomial identity and appendix J known answers (model self-test)"]
EXHAUSTIVE = ["all four coefficient tables of both isogenies, coefficient by coefficient, plus the polynomial identity on the live tables"]
MIN_EVALS = {"quick": 3000, "thorough": 100000}


def kernel_points(g):
    """rational kernel points of the isogeny: points of E' whose x is a root of XD (G2: XD = (x - x0)^2)"""
    if g == 1:
        out = []
        for x in G.poly_roots_fq(RF.ISO_TABLES[1][2]):
            P = RF.ISO1.lift_x(x)
            if P is not None:
                out += [P, RF.ISO1.neg(P)]
        return out
    xd = RF.ISO_TABLES[2][2]
    # XD = x^2 + c1 x + c0, double root x0 = -c1/2 if it is a perfect square
    c0, c1, c2 = xd
    assert c2 == (1, 0)
    x0 = F.f2_mul(F.f2_neg(c1), F.f2_inv((2, 0)))
    if F.f2_sub(F.f2_mul(x0, x0), c0) != F.F2_ZERO:
        return []
    P = RF.ISO2.lift_x(x0)
    return [] if P is None else [P, RF.ISO2.neg(P)]


def special_points(g):
    """points of the isogenous curve at which something special happens in the rational map:
    rational zeros of the x- and y-numerators (images with x = 0, i.e. the 3-torsion points (0, +-2) of E, resp. y = 0),
    and the points where E' and E intersect (x* = (b - B')/A', the same coordinates satisfy both equations)."""
    f = FQ if g == 1 else FQ2
    iso = RF.ISO1 if g == 1 else RF.ISO2
    out = []
    if g == 1:
        for tab in (RF.ISO_TABLES[1][1], RF.ISO_TABLES[1][3]):
            for x in G.poly_roots_fq(tab):
                P = iso.lift_x(x)
                if P is not None:
                    out += [P, iso.neg(P)]
    b = f.small(4) if g == 1 else (4, 4)
    xs = f.mul(f.sub(b, iso.b), f.inv(iso.a))
    P = iso.lift_x(xs)
    if P is not None:
        out += [P, iso.neg(P)]
    return out


def plan(tier, seed):
    shards, no = [], 0
    q = tier == "quick"
    for g in (1, 2):
        shards.append(dict(no=no, g=g, part="tables", idx=0)); no += 1
        for i in range(12 if q else 600):
            shards.append(dict(no=no, g=g, part="points", idx=i)); no += 1
        for i in range(6 if q else 300):
            shards.append(dict(no=no, g=g, part="hom", idx=i)); no += 1
    return shards


def run_shard(shard, tier, seed, wd, res):
    g, part = shard["g"], shard["part"]
    rng = G.rng_for(seed, ID, g, part, shard["idx"])
    s = H.Script()
    gp = "g%d" % g
    f = FQ if g == 1 else FQ2
    iso = RF.ISO1 if g == 1 else RF.ISO2
    T = (lambda v: ("q", v)) if g == 1 else (lambda v: ("q2", v))
    lit = lambda P, lam=None: V.proj(g, *G.rescale(g, P, lam if lam is not None else G.rand_fe(g, rng))) if P is not None else V.proj(g, *G.identity_rep(g, G.rand_fe(g, rng)))
    if part == "tables":
        s.op(gp + ".iso_tables")
        s.op(gp + ".osswu_consts")
        for K in kernel_points(g):
            s.op(gp + ".iso", lit(K))
            s.op(gp + ".iso", lit(K, f.one))
        for Sp in special_points(g):
            s.op(gp + ".iso", lit(Sp))
            s.op(gp + ".iso", lit(Sp, f.one))
            s.op(gp + ".iso", lit(Sp, rng.choice(G.special_lambdas(g, rng))))
        for _ in range(6):
            s.op(gp + ".iso", lit(None))
        s.op(gp + ".iso", V.proj(g, f.zero, f.one, f.zero))
        # every special scaling (-1, 2, zero components, roots of unity of order 3, 6, 8) on a few points
        for _ in range(3):
            P = iso.random_point(rng)
            for lam in G.special_lambdas(g, rng):
                s.op(gp + ".iso", lit(P, lam))
    elif part == "points":
        for _ in range(150 if g == 1 else 120):
            P = iso.random_point(rng)
            s.op(gp + ".iso", lit(P, f.one))
            s.op(gp + ".iso", lit(P))
            if rng.random() < 0.3:
                s.op(gp + ".iso", lit(P, f.neg(f.one)))
            if rng.random() < 0.3:
                s.op(gp + ".iso", lit(P, rng.choice(G.special_lambdas(g, rng))))
        for _ in range(60):
            o = s.op(gp + ".osswu", T(f.rand(rng)))
            s.op(gp + ".iso", o)
    else:
        ks = kernel_points(g)
        for _ in range(60 if g == 1 else 50):
            P = iso.random_point(rng)
            r = rng.random()
            if r < 0.15:
                Qp = P
            elif r < 0.3:
                Qp = iso.neg(P)
            elif r < 0.36:
                Qp = None
            elif r < 0.45 and ks:
                Qp = rng.choice(ks)
            else:
                Qp = iso.random_point(rng)
            Rm = iso.add(P, Qp)                   # the isogenous curve's own group law (a != 0), in the model
            i1 = s.op(gp + ".iso", lit(P))
            i2 = s.op(gp + ".iso", lit(Qp))
            i3 = s.op(gp + ".iso", lit(Rm))
            sm = s.op(gp + ".add", i1, i2)
            s.op(gp + ".eq", sm, i3)
    H.monitor_script(__import__("props.c16", fromlist=["x"]), s.text(), BUILDS, wd, res, shard)


def judge(ctx, rec, res):
    v = spec.judge(ctx, rec, res)
    g = 1 if rec.op.startswith("g1") else 2
    name = rec.op.split(".")[1]
    f = FQ if g == 1 else FQ2
    iso = RF.ISO1 if g == 1 else RF.ISO2
    if name == "iso_tables" and v is None and rec.status == "ok":
        # polynomial identity on the LIVE tables
        t = [[x[1] for x in rec.outs[i][1]] for i in range(4)]
        res.evals += 1
        ok = selftest.isogeny_identity(f, iso.a, iso.b, 4 if g == 1 else (4, 4), t[0], t[1], t[2], t[3])
        tt = [selftest._ptrim(f, list(x)) for x in t]
        deg = max(len(tt[0]) - 1, len(tt[1]))      # degree of the x-map = max(deg XN, deg XD + ...) ; XD has degree deg-1
        res.info["live tables: polynomial identity holds, deg XN = %d" % (len(tt[0]) - 1)] += 1
        if not ok or len(tt[0]) - 1 != (11 if g == 1 else 3) or len(tt[1]) - 1 != (10 if g == 1 else 2):
            return "tables forming a degree-%d rational map E' -> E (polynomial identity)" % (11 if g == 1 else 3)
        res.classes[(rec.op, ctx.build)] += 1
        return None
    if name == "iso":
        P = iso.from_jacobian(*rec.args[0][1])
        src = rec.srcs[0]
        img = RF.iso_map(g, P) if iso.on_curve(P) else "?"
        cls = "O" if P is None else ("kernel" if img is None else "point")
        z = rec.args[0][1][2]
        rep = "Z=0" if f.is_zero(z) else "Z=1" if z in (1, (1, 0)) else "Z=-1" if f.is_zero(f.add(z, f.one)) else ("Z=lib" if isinstance(src, int) else "Z=*")
        res.classes[(rec.op, cls, rep, rec.status, ctx.build)] += 1
        if v is None and rec.status == "ok":
            res.evals += 1
            E = E1 if g == 1 else E2
            if not E.on_curve(spec.pt(rec.outs[0])[1]):
                return "a point of the target curve"
        if len(res.samples) < 5 and cls != "point":
            res.samples.append(dict(build=ctx.build, op=rec.line[:300], cls=cls, observed=rec.status + " " + " ".join(V.fmt(o) for o in rec.outs)[:200]))
    elif name == "eq":
        # homomorphism law: the generator only emits eq for (iso P + iso Q) vs iso(P+Q); the monitor re-derives the triple
        try:
            sm, i3 = ctx.recs[rec.srcs[0]], ctx.recs[rec.srcs[1]]
            i1, i2 = ctx.recs[sm.srcs[0]], ctx.recs[sm.srcs[1]]
            P, Qp, Rm = [iso.from_jacobian(*r.args[0][1]) for r in (i1, i2, i3)]
            if not iso.eq(iso.add(P, Qp), Rm):
                return None
        except Exception:
            return None
        res.evals += 1
        rel = "P=Q" if iso.eq(P, Qp) else "P=-Q" if iso.eq(P, iso.neg(Qp)) else "with-O" if (P is None or Qp is None) else "generic"
        if RF.iso_map(g, Qp) is None and Qp is not None:
            rel += "+kernel"
        res.classes[("homomorphism", g, rel, ctx.build)] += 1
        res.info["homomorphism triples"] += 1
        if rec.status != "ok" or rec.outs[0][1] is not True:
            return "iso(P) + iso(Q) == iso(P+Q)"
    return v
