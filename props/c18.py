"""C18 — square roots, quadratic character, sgn0 and ordering are exact (Fq, Fr, Fq2)."""
from lib import harness as H, spec, vals as V, gen as G
from model.params import Q, R
from model import fields as F

ID = "C18"
BUILDS = ("rel", "chk")
RULE = ("sqrt / legendre on Fq, Fr, Fq2; sgn0, negate_if and cmp on Fq, Fq2. Inputs: constructed squares (a^2), "
        "constructed non-residues (a^2 * fixed non-residue), zero, boundary values ((q+-1)/2, 1, q-1), and for Fq2: real "
        "residues and real non-residues of Fq (both square in Fq2, root real resp. purely imaginary), purely "
        "imaginary elements, elements with norm residue / non-residue, plus random. A case is (op, structural class "
        "of the operand, model quadratic character, outcome, build); classes are recomputed by the monitor. Any root "
        "is accepted (b^2 = a), None is required exactly for non-residues")
ASSUMPTIONS = ["Euler's criterion evaluated with CPython pow()", "for Fq2 the character is that of the norm (stated in the property)"]
MIN_EVALS = {"quick": 20000, "thorough": 1000000}


def plan(tier, seed):
    n = 4 if tier == "quick" else 70
    shards, no = [], 0
    for fam in ("fq", "fr", "fq2"):
        shards.append(dict(no=no, fam=fam, part="grid", idx=0)); no += 1
        for i in range(n * (2 if fam == "fq2" else 1)):
            shards.append(dict(no=no, fam=fam, part="random", idx=i)); no += 1
    return shards


def nonres(m):
    z = 2
    while pow(z, (m - 1) // 2, m) != m - 1:
        z += 1
    return z


def run_shard(shard, tier, seed, wd, res):
    fam, part = shard["fam"], shard["part"]
    rng = G.rng_for(seed, ID, fam, part, shard["idx"])
    s = H.Script()
    cnt = 60 if part == "grid" else 300
    if fam in ("fq", "fr"):
        m = Q if fam == "fq" else R
        ty = "q" if fam == "fq" else "r"
        z = nonres(m)
        vals = []
        if part == "grid":
            vals += G.field_boundary(m, m.bit_length())
        for _ in range(cnt):
            a = rng.randrange(m)
            vals += [a * a % m, a * a * z % m, a]
        for a in vals:
            s.op(fam + ".sqrt", (ty, a))
            s.op(fam + ".legendre", (ty, a))
            if fam == "fq":
                s.op("fq.sgn0", (ty, a))
                s.op("fq.sgn0", (ty, (-a) % m))
                s.op("fq.negate_if", (ty, a), V.n(rng.getrandbits(1)))
                b = rng.choice([(-a) % m, a, (a + 1) % m, rng.randrange(m)])
                s.op("fq.cmp", (ty, a), (ty, b))
                s.op("fq." + rng.choice(["lt", "gt", "le", "ge", "pcmp", "max", "min"]), (ty, a), (ty, b))
    else:
        z = nonres(Q)
        vals = []
        if part == "grid":
            B = [0, 1, 2, Q - 1, (Q - 1) // 2, (Q + 1) // 2, Q - 2]
            vals += [(a, b) for a in B for b in B]
        for _ in range(cnt):
            a, b = rng.randrange(Q), rng.randrange(Q)
            x = (a, b)
            sq = F.f2_sqr(x)
            vals += [x, sq, (a * a % Q, 0), (a * a * z % Q, 0), (0, a), (0, b * b % Q), (0, b * b * z % Q),
                     F.f2_mul(sq, (1, 1)) if F.f2_legendre((1, 1)) == -1 else F.f2_mul(sq, (z, 1)),
                     (a, a), (a, (-a) % Q)]
        if part == "grid":
            # components at limb boundaries (also in the Montgomery domain) against small / odd / even partners:
            # sgn0, negate_if and the order only (cheap), for "is the first coefficient zero?" style logic
            LB = G.field_boundary(Q, 381)
            for c0 in LB:
                for c1 in (0, 1, 2, Q - 1, Q - 2, rng.randrange(Q) | 1, rng.randrange(Q) & ~1):
                    for x in ((c0, c1), (c1, c0)):
                        tx = ("q2", x)
                        s.op("fq2.sgn0", tx)
                        s.op("fq2.negate_if", tx, V.n(1))
                        s.op("fq2.cmp", tx, ("q2", F.f2_neg(x)))
                        s.op("fq2.lt", tx, ("q2", F.f2_neg(x)))
                        s.op("fq2.gt", tx, ("q2", F.f2_neg(x)))
                        s.op("fq2.is_zero", tx)
        for x in vals:
            tx = ("q2", x)
            s.op("fq2.sqrt", tx)
            s.op("fq2.legendre", tx)
            s.op("fq2.sgn0", tx)
            s.op("fq2.sgn0", ("q2", F.f2_neg(x)))
            s.op("fq2.negate_if", tx, V.n(rng.getrandbits(1)))
            y = rng.choice([F.f2_neg(x), x, (x[0], (x[1] + 1) % Q), ((x[0] + 1) % Q, x[1]), (rng.randrange(Q), x[1]), (rng.randrange(Q), rng.randrange(Q))])
            s.op("fq2.cmp", tx, ("q2", y))
            s.op("fq2.cmp", tx, ("q2", F.f2_neg(x)))
            # the comparison operators (PartialOrd) are what the decoders use: y < -y
            s.op("fq2.lt", tx, ("q2", F.f2_neg(x)))
            s.op("fq2." + rng.choice(["gt", "le", "ge", "pcmp", "max"]), tx, ("q2", y))
            # the provided methods of Ord (min, max, clamp) can be overridden independently of cmp
            s.op("fq2.min", tx, ("q2", y)); s.op("fq2.max", tx, ("q2", y))
            z_ = rng.choice([(rng.randrange(Q), x[1]), (rng.randrange(Q), y[1]), (rng.randrange(Q), rng.randrange(Q))])
            s.op("fq2.min", ("q2", z_), tx); s.op("fq2.clamp", tx, ("q2", y), ("q2", z_)); s.op("fq2.clamp", tx, ("q2", z_), ("q2", y))
            s.op("fq2." + rng.choice(["lt", "gt", "pcmp"]), tx, ("q2", (rng.randrange(Q), x[1])))
    H.monitor_script(__import__("props.c18", fromlist=["x"]), s.text(), BUILDS, wd, res, shard)


def judge(ctx, rec, res):
    v = spec.judge(ctx, rec, res)
    a = rec.args[0]
    if a[0] == "q2":
        c0, c1 = a[1]
        st = "zero" if (c0, c1) == (0, 0) else "real" if c1 == 0 else "imag" if c0 == 0 else "mixed"
        ch = F.f2_legendre(a[1])
        if st == "real":
            st += "/fq-residue" if F.fq_legendre(c0) == 1 else "/fq-nonresidue"
    else:
        m = Q if a[0] == "q" else R
        st = G.fclass(a[1], m)
        ch = F.fq_legendre(a[1]) if a[0] == "q" else F.fr_legendre(a[1])
    extra = ()
    if rec.op.endswith(".cmp") and rec.status == "ok":
        extra = (rec.outs[0][1],)
        if a[0] == "q2" and rec.args[1][1][1] == a[1][1]:
            extra += ("same-c1",)
    res.classes[(rec.op, st, ch, rec.status, extra, ctx.build)] += 1
    if len(res.samples) < 5 and rec.op == "fq2.sqrt" and st.startswith("real/fq-non"):
        res.samples.append(dict(build=ctx.build, op=rec.line[:300], observed=rec.status + " " + " ".join(V.fmt(o) for o in rec.outs)))
    return v
