"""C14 — map_to_curve / map2_to_curve equal the RFC composition for all field inputs."""
from lib import harness as H, spec, vals as V, gen as G
from model.params import Q, R
from model import fields as F
from model import rfc9380 as RF
from model.curves import E1, E2, FQ, FQ2

ID = "C14"
BUILDS = ("rel", "chk")
RULE = ("MapToCurve::{map_to_curve, map2_to_curve} for G1 (u in Fq) and G2 (u in Fq2): random inputs; u0 = u1; "
        "u0 = -u1; zero; 1, -1; the SSWU-exceptional inputs; and CONSTRUCTED distinct inputs t0 != +-t1 whose SSWU images "
        "coincide or are opposite (the two roots s, -1-s of Z^2t^4+Zt^2 = c for the first candidate, the two roots of "
        "s^2+(1-c')s+(1-c') = 0 for the second), in both argument orders. Oracle: clear_cofactor(iso(sswu(u))) and "
        "clear_cofactor(iso(sswu(u0)) + iso(sswu(u1))) with the addition on the target curve, in the model; result must be "
        "in the subgroup; a panic is a violation. The relation between the two SSWU images (equal / opposite / unrelated / "
        "kernel image) is recomputed by the monitor from the logged inputs. A case is (op, group, relation class, "
        "input class, build)")
ASSUMPTIONS = ["model RFC 9380 pipeline (see C06)", "the verdict is always the formula; 'u0 = -u1 gives the identity' is not asserted separately"]
MIN_EVALS = {"quick": 1000, "thorough": 40000}


def plan(tier, seed):
    shards, no = [], 0
    q = tier == "quick"
    for g in (1, 2):
        for i in range((3 if g == 1 else 6) if q else (40 if g == 1 else 100)):
            shards.append(dict(no=no, g=g, idx=i)); no += 1
    return shards


def coinciding_inputs(g, rng, want=6, tries=200):
    """pairs (t0, t1), t0 != +-t1, with x(sswu(t0)) == x(sswu(t1)) — constructed by solving for the second preimage"""
    f = FQ if g == 1 else FQ2
    iso, Z = (RF.ISO1, RF.Z1) if g == 1 else (RF.ISO2, RF.Z2)
    out = []
    for _ in range(tries):
        if len(out) >= want:
            break
        t0 = G.rand_fe(g, rng)
        s0 = f.mul(Z, f.mul(t0, t0))
        P0, info = RF.sswu(iso, Z, t0)
        if info["exceptional"]:
            continue
        if info["which"] == 1:
            s1 = f.sub(f.neg(f.one), s0)                      # the other root of s^2 + s = c
        else:
            # x2 = (-B/A) (s^2+s+1)/(s+1): the other root of s^2 + (1-c')s + (1-c') = 0 is c' - 1 - s0
            cp = f.mul(f.add(f.add(f.mul(s0, s0), s0), f.one), f.inv(f.add(s0, f.one)))
            s1 = f.sub(f.sub(cp, f.one), s0)
        if f.is_zero(s1):
            continue
        t1 = f.sqrt(f.mul(s1, f.inv(Z)))
        if t1 is None:
            continue
        P1, info1 = RF.sswu(iso, Z, t1)
        if info1["which"] != info["which"] or not f.is_zero(f.sub(P0[0], P1[0])):
            continue
        if f.is_zero(f.sub(t0, t1)) or f.is_zero(f.add(t0, t1)):
            continue
        out.append((f.norm(t0), f.norm(t1)))
    return out


def sswu_preimages(g, P):
    """all t with sswu(t) == P (a point of the isogenous curve): the map is inverted for either candidate
    (s = Z t^2 solves a quadratic), the sign of t chosen by the model itself"""
    f = FQ if g == 1 else FQ2
    iso, Z = (RF.ISO1, RF.Z1) if g == 1 else (RF.ISO2, RF.Z2)
    one, two, four = f.one, f.small(2), f.small(4)
    x = P[0]
    c = f.mul(f.neg(f.mul(iso.a, x)), f.inv(iso.b))            # c = -A'x/B'
    svals = []
    w = f.sub(c, one)                                           # candidate 1: 1/(s^2+s) = c - 1
    if not f.is_zero(w):
        d = f.sqrt(f.add(one, f.mul(four, f.inv(w))))
        if d is not None:
            svals += [f.mul(f.sub(d, one), f.inv(two)), f.mul(f.sub(f.neg(d), one), f.inv(two))]
    e = f.sub(one, c)                                           # candidate 2: s^2 + (1-c) s + (1-c) = 0
    d = f.sqrt(f.sub(f.mul(e, e), f.mul(four, e)))
    if d is not None:
        svals += [f.mul(f.sub(d, e), f.inv(two)), f.mul(f.sub(f.neg(d), e), f.inv(two))]
    out = []
    for sv in svals:
        if f.is_zero(sv):
            continue
        t = f.sqrt(f.mul(sv, f.inv(Z)))
        if t is None:
            continue
        for tt in (f.norm(t), f.norm(f.neg(t))):
            if RF.sswu(iso, Z, tt)[0] == (f.norm(P[0]), f.norm(P[1])) and tt not in out:
                out.append(tt)
    return out


def kernel_translate_pairs(g, rng, want=8, tries=60):
    """pairs (t0, t1) whose SSWU images DIFFER but whose images under the isogeny coincide or are opposite:
    sswu(t1) = +-sswu(t0) + K with K a non-zero rational kernel point (G1: the 11-isogeny has ten of them)"""
    from props.c16 import kernel_points
    f = FQ if g == 1 else FQ2
    iso, Z = (RF.ISO1, RF.Z1) if g == 1 else (RF.ISO2, RF.Z2)
    Ks = kernel_points(g)
    out = []
    if not Ks:
        return out
    for _ in range(tries):
        if len(out) >= want:
            break
        t0 = G.rand_fe(g, rng)
        P0 = RF.sswu(iso, Z, t0)[0]
        K = rng.choice(Ks)
        sign = rng.choice([1, -1])
        P1 = iso.add(P0 if sign == 1 else iso.neg(P0), K)
        if P1 is None:
            continue
        for t1 in sswu_preimages(g, P1)[:1]:
            out.append((f.norm(t0), t1))
    return out


def kernel_preimages(g):
    """inputs t whose SSWU image is a rational kernel point of the isogeny (x-coordinate a root of XD); G1 only"""
    from props.c16 import kernel_points
    f = FQ if g == 1 else FQ2
    iso, Z = (RF.ISO1, RF.Z1) if g == 1 else (RF.ISO2, RF.Z2)
    out = []
    for K in kernel_points(g)[::2]:
        x = K[0]
        # first candidate: x1(s) = x  <=>  s^2 + s = 1 / (x * (-A/B) - 1)
        d = f.sub(f.mul(x, f.mul(f.neg(iso.a), f.inv(iso.b))), f.one)
        if f.is_zero(d):
            continue
        c = f.inv(d)
        disc = f.sqrt(f.add(f.one, f.mul(f.small(4), c)))
        if disc is None:
            continue
        for sg in (disc, f.neg(disc)):
            sv = f.mul(f.sub(sg, f.one), f.inv(f.small(2)))
            t = f.sqrt(f.mul(sv, f.inv(Z)))
            if t is not None:
                P, info = RF.sswu(iso, Z, t)
                if RF.iso_map(g, P) is None:
                    out += [f.norm(t), f.norm(f.neg(t))]
    return out


def exceptional_inputs(g):
    """t with Z^2 t^4 + Z t^2 = 0, t != 0: t^2 = -1/Z (exists in Fq, not in Fq2)"""
    f = FQ if g == 1 else FQ2
    Z = RF.Z1 if g == 1 else RF.Z2
    t = f.sqrt(f.neg(f.inv(Z)))
    return [] if t is None else [f.norm(t), f.norm(f.neg(t))]


def run_shard(shard, tier, seed, wd, res):
    g = shard["g"]
    rng = G.rng_for(seed, ID, g, shard["idx"])
    s = H.Script()
    gp = "g%d" % g
    f = FQ if g == 1 else FQ2
    T = (lambda v: ("q", v)) if g == 1 else (lambda v: ("q2", v))
    q = tier == "quick"
    singles = []
    pairs = []
    if shard["idx"] == 0:
        from props.c15 import sswu_special_inputs
        singles += [f.zero, f.one, f.neg(f.one), f.small(2)] + exceptional_inputs(g) + sswu_special_inputs(g)
        if g == 2:
            from props.c15 import sswu_image_special_inputs
            singles += sswu_image_special_inputs(rng, 4)
        if g == 2:
            singles += [(0, 1), (0, Q - 1), (1, 1), (Q - 1, 0), (0, 2)]
        for a in singles:
            pairs += [(a, a), (a, f.neg(a)), (f.zero, a), (a, f.zero)]
        ex = exceptional_inputs(g)
        if ex:
            pairs += [(ex[0], ex[1]), (ex[0], ex[0]), (ex[0], f.one)]
        kp = kernel_preimages(g)
        singles += kp
        for a in kp:
            pairs += [(a, f.one), (f.small(3), a), (a, a), (a, f.neg(a))]
        if len(kp) >= 4:
            pairs += [(kp[0], kp[2]), (kp[2], kp[1])]
    n = 10 if q else 30
    for _ in range(n):
        u = G.rand_fe(g, rng, nonzero=False)
        v = G.rand_fe(g, rng, nonzero=False)
        singles.append(u)
        pairs += [(u, v), (u, u), (u, f.neg(u))]
    for t0, t1 in coinciding_inputs(g, rng, want=8 if q else 20):
        pairs += [(t0, t1), (t1, t0), (t0, f.neg(t1)), (f.neg(t0), t1)]
    # images that differ on the isogenous curve but coincide / are opposite on the target curve (kernel translates)
    for t0, t1 in kernel_translate_pairs(g, rng, want=6 if q else 16):
        pairs += [(t0, t1), (t1, t0), (t0, f.neg(t1))]
    # cross-candidate coincidences: with s = Z t^2, the first candidate of 1/s equals the second candidate of s, so
    # t1 = +-1/(Z t0) lands on the same x as t0 whenever exactly one of the two uses its first candidate
    Z = RF.Z1 if g == 1 else RF.Z2
    for _ in range(8 if q else 24):
        t0 = G.rand_fe(g, rng)
        t1 = f.inv(f.mul(Z, t0))
        pairs += [(t0, t1), (t1, t0), (t0, f.neg(t1))]
    if g == 2 and shard["idx"] == 0:
        for c0 in G.field_boundary(Q, 381)[::4]:
            singles += [(c0, 1), (0, c0 or 1)]
    for u in singles:
        s.op(gp + ".map", T(f.norm(u)))
    for u0, u1 in pairs:
        s.op(gp + ".map2", T(f.norm(u0)), T(f.norm(u1)))
    H.monitor_script(__import__("props.c14", fromlist=["x"]), s.text(), BUILDS, wd, res, shard)


def uclass(g, u):
    f = FQ if g == 1 else FQ2
    if f.is_zero(u):
        return "0"
    if u in (1, (1, 0)) or f.is_zero(f.add(u, f.one)):
        return "+-1"
    Z = RF.Z1 if g == 1 else RF.Z2
    zu2 = f.mul(Z, f.mul(u, u))
    if f.is_zero(f.add(f.mul(zu2, zu2), zu2)):
        return "exceptional"
    if g == 2 and (u[0] == 0 or u[1] == 0):
        return "zero-component"
    return "gen"


def judge(ctx, rec, res):
    v = spec.judge(ctx, rec, res)
    g = 1 if rec.op.startswith("g1") else 2
    name = rec.op.split(".")[1]
    f = FQ if g == 1 else FQ2
    iso = RF.ISO1 if g == 1 else RF.ISO2
    us = [a[1] for a in rec.args]
    imgs = [RF.sswu1(u) if g == 1 else RF.sswu2(u) for u in us]
    rel = "-"
    if name == "map2":
        same_in = us[0] == us[1]
        opp_in = f.is_zero(f.add(us[0], us[1]))
        if iso.eq(imgs[0], imgs[1]):
            rel = "images equal" + ("" if same_in else " (distinct inputs)")
        elif iso.eq(imgs[0], iso.neg(imgs[1])):
            rel = "images opposite" + ("" if opp_in else " (inputs not opposite)")
        else:
            rel = "unrelated"
            # related only AFTER the isogeny (the SSWU images differ by a kernel point)
            i0, i1 = RF.iso_map(g, imgs[0]), RF.iso_map(g, imgs[1])
            E_ = E1 if g == 1 else E2
            if i0 is not None and i1 is not None:
                if E_.eq(i0, i1):
                    rel = "target images equal (kernel translate)"
                elif E_.eq(i0, E_.neg(i1)):
                    rel = "target images opposite (kernel translate)"
    if any(RF.iso_map(g, im) is None for im in imgs):
        rel += "+kernel-image"
    res.classes[(rec.op, rel, tuple(uclass(g, u) for u in us), rec.status, ctx.build)] += 1
    res.info["relation:" + rel] += 1
    if v is None and rec.status == "ok":
        res.evals += 1
        if not spec.in_sub(g, spec.pt(rec.outs[0])[1]):
            return "a point of the order-r subgroup"
    if len(res.samples) < 6 and "distinct" in rel:
        res.samples.append(dict(build=ctx.build, op=rec.line[:420], relation=rel, observed=rec.status))
    return v


def signature(v):
    """known-finding signature: the class of inputs (never a specific value)"""
    line = v.get("line", "")
    if ".map2 " in line:
        try:
            p = line.split()
            g = 1 if p[1].startswith("g1") else 2
            u0, u1 = V.parse(p[2])[1], V.parse(p[3])[1]
            iso = RF.ISO1 if g == 1 else RF.ISO2
            a, b = (RF.sswu1(u0), RF.sswu1(u1)) if g == 1 else (RF.sswu2(u0), RF.sswu2(u1))
            if iso.eq(a, b):
                return "map2_to_curve: sswu(u0) == sswu(u1)"
        except Exception:
            pass
    return None
