"""C05 — point encoding round-trips and is the canonical ZCash wire format."""
from lib import harness as H, spec, vals as V, gen as G
from model.params import Q, R
from model import encoding as EN
from model.curves import E1, E2, g1_gen, g2_gen
from props import c04

ID = "C05"
BUILDS = ("rel", "chk")
RULE = ("points of G1/G2 (identity, generator, [k]g for small k, seeded random subgroup points) presented as affine "
        "values and as non-normalised projective representatives (converted by the library), encoded with "
        "into_compressed / into_uncompressed / EncodedPoint::from_affine and compared byte-for-byte with the model ZCash "
        "encoder, then decoded again (must give the same point); plus non-malleability: every byte string of a C04-style "
        "hostile workload that the checked decoder ACCEPTS is re-encoded and must reproduce the input bytes. Encodings of "
        "points outside the subgroup are driven too but only counted (out of the property's domain). A case is (op, group, "
        "sort flag, identity?, leading-zero x byte?, representation class of the source, build)")
RULE += (" " + 'Points with a coordinate whose leading 16 bits equal those of the modulus / are zero are included.')
ASSUMPTIONS = ["model encoder written from src/bls12_381/README.md and the property text", "lexicographic order of Fq2 with the u-coefficient most significant"]
MIN_EVALS = {"quick": 6000, "thorough": 200000}


def plan(tier, seed):
    shards, no = [], 0
    q = tier == "quick"
    for g in (1, 2):
        for i in range(6 if q else 120):
            shards.append(dict(no=no, g=g, part="points", idx=i)); no += 1
        for i in range(2 if q else 30):
            shards.append(dict(no=no, g=g, part="malleability", idx=i)); no += 1
    return shards


def run_shard(shard, tier, seed, wd, res):
    g, part = shard["g"], shard["part"]
    rng = G.rng_for(seed, ID, g, part, shard["idx"])
    s = H.Script()
    gp = "g%d" % g
    c = E1 if g == 1 else E2
    gen = g1_gen() if g == 1 else g2_gen()
    if part == "points":
        pts = [None, gen, c.neg(gen)] if shard["idx"] == 0 else []
        if shard["idx"] == 0:
            pts += [c.mul(k, gen) for k in range(2, 12)]
        if shard["idx"] in (0, 1):
            pp = [P for _, P in G.prefix_points(g)]
            pts += pp[shard["idx"]::2] + [c.neg(P) for P in pp[shard["idx"]::2]]
        # walk a chain P, P+D, P+2D, ... : cheap in the model (one addition each), still pseudo-random points
        P, D = G.subgroup_point(g, rng), G.subgroup_point(g, rng)
        for _ in range(120):
            pts.append(P)
            P = c.add(P, D)
        for P in pts:
            a = V.aff(g, P)
            for op in ("enc_c", "enc_u", "enc_c_from", "enc_u_from"):
                e = s.op("%s.%s" % (gp, op), a)
                if op == "enc_c":
                    s.op(gp + ".dec_c", e)
                elif op == "enc_u":
                    s.op(gp + ".dec_u", e)
            # through a non-normalised projective representative
            if P is not None:
                pj = V.proj(g, *G.rescale(g, P, G.rand_fe(g, rng)))
            else:
                pj = V.proj(g, *G.identity_rep(g, G.rand_fe(g, rng)))
            la = s.op(gp + ".to_affine", pj)
            ec = s.op(gp + ".enc_c", la)
            eu = s.op(gp + ".enc_u", la)
            s.op(gp + ".dec_c", ec)
            s.op(gp + ".dec_u", eu)
        # library-produced identities (cancelling sums keep non-trivial X, Y with Z = 0) and negated affine values
        for P in pts[:6]:
            if P is None:
                continue
            pj = V.proj(g, *G.rescale(g, P, G.rand_fe(g, rng)))
            z = s.op(gp + ".sub", pj, V.proj(g, *G.rescale(g, P, G.rand_fe(g, rng))))
            za = s.op(gp + ".to_affine", z)
            zm = s.op(gp + ".to_affine", s.op(gp + ".addm", pj, V.aff(g, c.neg(P))))
            zn = s.op(gp + ".aneg", V.aff(g, None))
            zr = s.op(gp + ".to_affine", s.op(gp + ".amul", V.aff(g, P), V.RR(R)))
            pn = s.op(gp + ".aneg", V.aff(g, P))
            for v_ in (za, zm, zn, zr, pn, s.op(gp + ".aneg", za)):
                ec = s.op(gp + ".enc_c", v_)
                eu = s.op(gp + ".enc_u", v_)
                s.op(gp + ".dec_c", ec)
                s.op(gp + ".dec_u", eu)
            for v_ in (z, s.op(gp + ".neg", z)):
                s.op("ser", v_, V.t(True), V.n(0), V.n(-1))
                s.op("ser", v_, V.t(False), V.n(0), V.n(-1))
        s.op(gp + ".enc_sizes")
        # out-of-domain observations (not judged)
        so = G.small_order_points(g, rng)
        for Pn in list(so.values())[:2] + [c.random_point(rng)]:
            s.op(gp + ".enc_c", V.aff(g, Pn))
            s.op(gp + ".enc_u", V.aff(g, Pn))
    else:
        # hostile byte strings; every accepted one is re-encoded
        for comp in (True, False):
            n = EN.SIZES[(g, comp)]
            dec = gp + (".dec_c" if comp else ".dec_u")
            enc = gp + (".enc_c" if comp else ".enc_u")
            cands = []
            for tag, P in c04.candidates(g, rng, 3):
                base = bytearray(c04.raw_encode(g, P, comp))
                for fl in range(8):
                    b = bytearray(base)
                    b[0] = (b[0] & 0x1f) | (fl << 5)
                    cands.append(bytes(b))
            for _ in range(40):
                P = G.subgroup_point(g, rng)
                b = bytearray(c04.raw_encode(g, P, comp))
                cands.append(bytes(b))
                if comp:
                    b[0] ^= 0x20            # the other root: also a subgroup point, different bytes
                    cands.append(bytes(b))
                bit = rng.randrange(n * 8)
                b[bit // 8] ^= 0x80 >> (bit % 8)
                cands.append(bytes(b))
            for b in cands:
                d = s.op(dec, V.b(b))
                s.op(enc, d)   # only executed when the decode produced a value
    H.monitor_script(__import__("props.c05", fromlist=["x"]), s.text(), BUILDS, wd, res, shard)


def judge(ctx, rec, res):
    if "." not in rec.op:
        return spec.judge(ctx, rec, res)      # ser of library-produced values (stream form of the same encodings)
    name = rec.op.split(".")[1]
    g = 1 if rec.op.startswith("g1") else 2
    if name.startswith("dec_"):
        # decoding is C04's subject; here it is judged only as the inverse of encoding
        v = spec.judge(ctx, rec, res)
        return v
    v = spec.judge(ctx, rec, res)
    if name.startswith("enc_") and name != "enc_sizes":
        P = spec.pt(rec.args[0])[1]
        src = ctx.recs[rec.srcs[0]] if isinstance(rec.srcs[0], int) else None
        if v is None and src is not None and src.op.split(".")[1].startswith("dec_") and rec.status == "ok":
            # non-malleability: re-encoding an accepted string must reproduce it
            res.evals += 1
            res.info["accepted strings re-encoded"] += 1
            if rec.outs[0][1] != src.args[0][1]:
                return "re-encoding reproduces the accepted byte string " + src.args[0][1].hex()
        if rec.status == "ok" and spec.in_sub(g, P):
            b = rec.outs[0][1]
            comp = name.startswith("enc_c")
            sort = bool(b[0] & 0x20)
            lead0 = (b[0] & 0x1f) == 0 and P is not None
            srcop = src.op.split(".")[1] if src is not None else "literal"
            res.classes[(rec.op, "sort=%d" % sort, "O" if P is None else "pt", "lead0" if lead0 else "", srcop, ctx.build)] += 1
            if sort:
                res.info["sort flag set"] += 1
            if lead0:
                res.info["x with a leading zero byte"] += 1
            if len(res.samples) < 5 and (sort or P is None) and comp:
                res.samples.append(dict(build=ctx.build, op=rec.line[:260], bytes=b.hex()))
    return v
