"""C01 — G1/G2 arithmetic is the elliptic-curve group law in every case."""
from lib import harness as H, spec, vals as V, gen as G
from model.params import Q, R
from model import fields as F
from model.curves import E1, E2, FQ, FQ2, g1_gen, g2_gen

ID = "C01"
BUILDS = ("rel", "chk")
RULE = ("grid: {identity (several Z=0 representatives), subgroup points, one point of every prime order dividing the "
        "cofactor (3, 11, 10177, ... / 13, 23, 2713, ...), points of order r*l, full-order curve points} x {same point, "
        "same point through another Jacobian representative, inverse, inverse through another representative, equal-y / "
        "different-x partner (x*omega, y), unrelated} x {Z=1, Z=-1, Z=random lambda, library-produced Z} x {add, sub, "
        "mixed add, mixed sub, double, negate, ==, conversions, is_zero, batch normalisation} on E(Fq) and E'(Fq2); then "
        "random programs over an 8-register file (20-80 steps, biased to meet equal and inverse points through different "
        "representatives), every step compared with the affine chord-and-tangent model as a point. A case is (op, group, "
        "order class of each operand, relation between the operands, representation class of each operand, outcome, "
        "build), all re-derived by the monitor from the logged coordinates; distinct_nontrivial counts distinct keys in "
        "which the relation is not 'unrelated' or an operand is not a normalised subgroup point")
ASSUMPTIONS = ["model: affine chord-and-tangent law with one modular inversion per step over CPython integers",
               "operands outside the curve are never judged (the property quantifies over curve points)"]
EXHAUSTIVE = ["the operand-class grid described in `rule` (every cell enumerated for both groups)"]
MIN_EVALS = {"quick": 40000, "thorough": 2000000}


def omega(g):
    """a primitive cube root of unity in Fq (also one in Fq2)"""
    w = pow(2, (Q - 1) // 3, Q)
    k = 3
    while w == 1:
        w = pow(k, (Q - 1) // 3, Q)
        k += 1
    return w if g == 1 else (w, 0)


def plan(tier, seed):
    shards, no = [], 0
    for g in (1, 2):
        for part in ("grid_a", "grid_b", "batch"):
            shards.append(dict(no=no, g=g, part=part, idx=0)); no += 1
    nprog = 10 if tier == "quick" else 400
    for i in range(nprog):
        for g in (1, 2):
            shards.append(dict(no=no, g=g, part="prog", idx=i)); no += 1
    return shards


def reps_of(g, P, rng):
    """representations of the model point P: list of (tag, typed projective literal)"""
    f = FQ if g == 1 else FQ2
    if P is None:
        t = G.rand_fe(g, rng)
        return [("id:std", V.proj(g, f.zero, f.one, f.zero)), ("id:t", V.proj(g, *G.identity_rep(g, t))),
                ("id:11", V.proj(g, f.one, f.one, f.zero)),
                # degenerate identity triples: all-zero (the isogeny evaluation returns it), one coordinate zero
                ("id:000", V.proj(g, f.zero, f.zero, f.zero)), ("id:x00", V.proj(g, f.rand(rng), f.zero, f.zero)),
                ("id:0y0", V.proj(g, f.zero, f.rand(rng), f.zero))]
    lam = G.rand_fe(g, rng)
    out = [("z1", V.proj(g, P[0], P[1], f.one)), ("z-1", V.proj(g, *G.rescale(g, P, f.neg(f.one)))),
           ("zl", V.proj(g, *G.rescale(g, P, lam)))]
    out.append(("zw", V.proj(g, *G.rescale(g, P, rng.choice(G.special_lambdas(g, rng)[-3 if g == 1 else -5:])))))      # Z a root of unity
    if g == 2:
        # a representative whose Z has a zero component (purely imaginary / purely real)
        out.append(("zi", V.proj(g, *G.rescale(g, P, rng.choice(G.special_lambdas(g, rng)[2:])))))
    return out


def pool(g, rng):
    c = E1 if g == 1 else E2
    pts = [("O", None)]
    pts.append(("gen", g1_gen() if g == 1 else g2_gen()))
    pts.append(("sub", G.subgroup_point(g, rng)))
    so = G.small_order_points(g, rng)
    for l, P in sorted(so.items()):
        if l < (1 << 64):
            pts.append(("ord%d" % l, P))
    l0 = min(so)
    pts.append(("ord r*%d" % l0, G.order_rl_point(g, rng, l0)))
    pts.append(("full", c.random_point(rng)))
    pts.append(("full", c.random_point(rng)))
    return pts


def partners(g, P, rng, others):
    c = E1 if g == 1 else E2
    f = FQ if g == 1 else FQ2
    out = [("same", P), ("inverse", c.neg(P))]
    if P is not None:
        w = omega(g)
        out.append(("same-y", (f.norm(f.mul(P[0], w)), P[1])))
        out.append(("same-y-neg", (f.norm(f.mul(P[0], w)), f.neg(P[1]))))
        out.append(("double", c.add(P, P)))
    out.append(("unrelated", rng.choice(others)))
    out.append(("O", None))
    return out


def run_shard(shard, tier, seed, wd, res):
    g, part = shard["g"], shard["part"]
    rng = G.rng_for(seed, ID, g, part, shard["idx"])
    s = H.Script()
    gp = "g%d" % g
    c = E1 if g == 1 else E2
    if part in ("grid_a", "grid_b"):
        pts = pool(g, rng)
        others = [p for _, p in pts if p is not None]
        half = pts[: len(pts) // 2 + 1] if part == "grid_a" else pts[len(pts) // 2 + 1:]
        for _, P in half:
            for tagp, lp in reps_of(g, P, rng):
                # unary ops on every representation, plus library-produced representations
                for op in ("dbl", "neg", "to_affine", "to_affine_from", "is_zero", "is_norm"):
                    s.op("%s.%s" % (gp, op), lp)
                la = s.op(gp + ".to_affine", lp)
                s.op(gp + ".to_proj", la)
                s.op(gp + ".to_proj_from", la)
                s.op(gp + ".aneg", la)
                s.op(gp + ".ais_zero", la)
                libp = s.op(gp + ".dbl", s.op(gp + ".add", lp, V.proj(g, *G.rescale(g, rng.choice(others), G.rand_fe(g, rng)))))
                for _, Qm in partners(g, P, rng, others):
                    for tagq, lq in reps_of(g, Qm, rng):
                        for op in ("add", "sub", "eq", "ne"):
                            s.op("%s.%s" % (gp, op), lp, lq)
                        qa = V.aff(g, Qm)
                        s.op(gp + ".addm", lp, qa)
                        s.op(gp + ".subm", lp, qa)
                    # library-produced representative of P against the partner, both directions
                    libq = s.op(gp + ".sub", s.op(gp + ".add", V.proj(g, *G.rescale(g, Qm, G.rand_fe(g, rng))) if Qm is not None else V.proj(g, *G.identity_rep(g, G.rand_fe(g, rng))), libp), libp)
                    for op in ("add", "sub", "eq", "ne"):
                        s.op("%s.%s" % (gp, op), lp, libq)
                        s.op("%s.%s" % (gp, op), libq, lp)
                    s.op(gp + ".aeq", s.op(gp + ".to_affine", libq), V.aff(g, Qm))
                    s.op(gp + ".ane", s.op(gp + ".to_affine", libq), V.aff(g, Qm))
                    s.op(gp + ".ane", V.aff(g, P), V.aff(g, Qm))
        for op in ("zero", "one", "azero", "aone"):
            s.op("%s.%s" % (gp, op))
    elif part == "batch":
        pts = pool(g, rng)
        allreps = []
        for _, P in pts:
            allreps += [lp for _, lp in reps_of(g, P, rng)]
        s.op(gp + ".batch_norm", V.lst([]))
        for lp in allreps:
            s.op(gp + ".batch_norm", V.lst([lp]))
        for _ in range(60 if tier == "quick" else 400):
            k = rng.randrange(2, 24)
            s.op(gp + ".batch_norm", V.lst([rng.choice(allreps) for _ in range(k)]))
        # long batches (implementations may work in blocks): mixed representations, identities sprinkled in
        for nb in ((1030, 2100) if tier == "quick" else (1030, 2100, 4100, 9000)):
            big = []
            for i_ in range(nb):
                r_ = rng.random()
                big.append(rng.choice(allreps) if r_ < 0.85 else V.proj(g, *G.identity_rep(g, G.rand_fe(g, rng))))
            s.op(gp + ".batch_norm", V.lst(big))
        # batches of library-produced values
        regs = [s.op(gp + ".add", rng.choice(allreps), rng.choice(allreps)) for _ in range(12)]
        for _ in range(20):
            k = rng.randrange(1, 12)
            s.op(gp + ".batch_norm", V.lst([rng.choice(regs + allreps) for _ in range(k)]))
    else:
        program(s, g, rng, tier)
    H.monitor_script(__import__("props.c01", fromlist=["x"]), s.text(), BUILDS, wd, res, shard)


def program(s, g, rng, tier):
    gp = "g%d" % g
    c = E1 if g == 1 else E2
    nprog = 40 if g == 1 else 25
    for _ in range(nprog):
        base = []
        for _ in range(3):
            kind = rng.random()
            if kind < 0.5:
                P = G.subgroup_point(g, rng)
            elif kind < 0.8:
                P = c.random_point(rng)
            elif kind < 0.9:
                P = None
            else:
                so = G.small_order_points(g, rng)
                P = so[min(so)]
            base.append(P)
        regs = []
        for P in base:
            tag, lp = rng.choice(reps_of(g, P, rng))
            regs.append(lp)
        while len(regs) < 8:
            regs.append(rng.choice(regs))
        steps = rng.randrange(20, 81)
        for _ in range(steps):
            r = rng.random()
            i, j, k = rng.randrange(8), rng.randrange(8), rng.randrange(8)
            if r < 0.22:
                regs[k] = s.op(gp + ".add", regs[i], regs[j])
            elif r < 0.36:
                regs[k] = s.op(gp + ".sub", regs[i], regs[j])
            elif r < 0.46:
                regs[k] = s.op(gp + ".dbl", regs[i])
            elif r < 0.52:
                regs[k] = s.op(gp + ".neg", regs[i])
            elif r < 0.62:
                a = s.op(gp + ".to_affine", regs[j])
                regs[k] = s.op(gp + (".addm" if rng.random() < 0.6 else ".subm"), regs[i], a)
            elif r < 0.70:
                # gadget: (a + b) - a equals b through another representative; then combine them
                t = s.op(gp + ".add", regs[i], regs[j])
                u = s.op(gp + ".sub", t, regs[i])
                s.op(gp + ".eq", u, regs[j])
                s.op(gp + ".ne", u, regs[j])
                regs[k] = s.op(gp + rng.choice([".add", ".sub"]), u, regs[j])
                regs[(k + 1) % 8] = u
            elif r < 0.76:
                # gadget: 2a - a - a is the identity in a library-produced representation
                t = s.op(gp + ".dbl", regs[i])
                t = s.op(gp + ".sub", t, regs[i])
                z = s.op(gp + ".sub", t, regs[i])
                s.op(gp + ".is_zero", z)
                regs[k] = s.op(gp + ".add", z, regs[j])
                regs[(k + 3) % 8] = z
            elif r < 0.82:
                s.op(gp + ".eq", regs[i], regs[j])
            elif r < 0.88:
                a = s.op(gp + ".to_affine", regs[i])
                regs[k] = s.op(gp + ".to_proj", a)
            elif r < 0.93:
                sel = [regs[x] for x in rng.sample(range(8), rng.randrange(1, 6))]
                bn = s.op(gp + ".batch_norm", V.lst(sel))
                regs[k] = bn[0]
            else:
                a = s.op(gp + ".to_affine", regs[i])
                b = s.op(gp + ".to_affine", regs[j])
                s.op(gp + ".aeq", a, b)
                s.op(gp + ".aneg", a)


def rep_class(v):
    ty, p = v
    if ty[0] == "a":
        return "inf" if p[2] else "aff"
    z = p[2]
    if z in (0, (0, 0)):
        return "Z=0"
    if z in (1, (1, 0)):
        return "Z=1"
    if z in (Q - 1, (Q - 1, 0)):
        return "Z=-1"
    return "Z=*"


def judge(ctx, rec, res):
    v = spec.judge(ctx, rec, res)
    name = rec.op.split(".")[1]
    g = 1 if rec.op.startswith("g1") else 2
    c = E1 if g == 1 else E2
    pts = [a for a in rec.args if a[0] in ("p1", "a1", "p2", "a2")]
    if name == "batch_norm":
        lst = rec.args[0][1]
        key = (rec.op, "n=%d" % min(len(lst), 8), tuple(sorted(set(rep_class(x) for x in lst))), rec.status, ctx.build)
        res.classes[key] += 1
        return v
    if not pts:
        return v
    grid = "grid" in str(ctx.cache.get("part", "")) or True
    P = [spec.pt(a)[1] for a in pts]
    rel = "-"
    if len(P) == 2:
        f = FQ if g == 1 else FQ2
        if P[0] is None or P[1] is None:
            rel = "with-O" if not (P[0] is None and P[1] is None) else "O,O"
        elif c.eq(P[0], P[1]):
            rel = "same"
        elif c.eq(P[0], c.neg(P[1])):
            rel = "inverse"
        elif f.is_zero(f.sub(P[0][1], P[1][1])):
            rel = "same-y"
        elif f.is_zero(f.add(P[0][1], P[1][1])):
            rel = "opposite-y"
        else:
            rel = "other"
    # order classes are cheap only for literal operands from the small pool (cached); library-produced operands get '-'
    ocl = tuple(G.point_class(g, p) if s_ is None else "lib" for p, s_ in zip(P, [s for a, s in zip(rec.args, rec.srcs) if a[0] in ("p1", "a1", "p2", "a2")]))
    key = (rec.op, ocl, rel, tuple(rep_class(a) for a in pts), rec.status, ctx.build)
    nontrivial = rel not in ("other", "-") or any(o not in ("r",) for o in ocl) or any(rep_class(a) not in ("Z=1", "aff") for a in pts)
    if nontrivial:
        res.classes[key] += 1
    res.info["rel:" + rel] += 1
    if len(res.samples) < 6 and rel in ("same", "inverse", "same-y") and rep_class(pts[0]) != rep_class(pts[-1]):
        res.samples.append(dict(build=ctx.build, op=rec.line[:500], relation=rel, observed=rec.status + " " + " ".join(V.fmt(o) for o in rec.outs)[:300]))
    return v
