"""C19 — stream (de)serialization round-trips, validates and consumes exact lengths."""
from lib import harness as H, spec, vals as V, gen as G
from model.params import Q, R
from model import encoding as EN
from model import fields as F
from model.curves import E1, E2, g1_gen, g2_gen
from props import c04

ID = "C19"
BUILDS = ("rel", "chk")
RULE = ("SerDes::serialize into a counting / fault-injecting Write and SerDes::deserialize from an instrumented Read "
        "(reports bytes consumed; delivers 1 byte or 7 bytes per call, interleaves ErrorKind::Interrupted, or fails at "
        "byte n) for Fr, Fq12, G1, G2, G1Affine, G2Affine and both flag values. Values: 0, 1, m-1, random; identity, "
        "generator and random points in affine and non-normalised projective form. Streams: valid, truncated at EVERY "
        "prefix length, with trailing data, with the opposite flag, with non-reduced scalars / coefficients at every "
        "position, and every C04-style hostile point encoding (all flag combinations, out-of-range coordinates, "
        "off-curve, wrong subgroup). Oracle: lengths 32/576/48|96/96|192, bytes equal to the model encoding, round trip, "
        "consumed == length on success, Err for everything the model rejects (kind not compared), never a panic, injected "
        "I/O errors surface as Err. A case is (op, type, flag, reader mode, stream class, outcome, build)")
RULE += (" " + 'Scalars / coefficients with every limb-wise (<,=,>) pattern against the modulus and points with boundary leading bytes are included.')
ASSUMPTIONS = ["model wire format from the property text and README", "the kind/text of an error is not compared"]
EXHAUSTIVE = ["every prefix length of one encoding per (type, flag)", "reader failure at every byte offset for Fr and point types", "non-reduced value at each of the 12 Fq12 coefficient positions"]
MIN_EVALS = {"quick": 8000, "thorough": 200000}

TYPES = ["fr", "fq12", "g1", "g2", "g1a", "g2a"]


def plan(tier, seed):
    shards, no = [], 0
    q = tier == "quick"
    for ty in TYPES:
        for part in ("roundtrip", "streams", "hostile"):
            for i in range((2 if part != "streams" else 1) if q else (60 if part != "streams" else 6)):
                shards.append(dict(no=no, ty=ty, part=part, idx=i)); no += 1
    return shards


def values(ty, rng, n):
    if ty == "fr":
        lp = [v for v in G.limb_compare_patterns(R, 256) if v < R]
        return [("r", v) for v in [0, 1, R - 1, R - 2, (R - 1) // 2, 1 << 254, (1 << 64) - 1] + rng.sample(lp, min(len(lp), 2 * n)) + [rng.randrange(R) for _ in range(n)]]
    if ty == "fq12":
        out = [F.F12_ZERO, F.F12_ONE, F.f12_from_coeffs([Q - 1] * 12), F.f12_from_coeffs([0] * 11 + [1]), F.f12_from_coeffs(list(range(12)))]
        out += [F.f12_from_coeffs([rng.randrange(Q) for _ in range(12)]) for _ in range(n)]
        lp = [v for v in G.limb_compare_patterns(Q, 384, rng, 120) if v < Q]
        out += [F.f12_from_coeffs([rng.choice(lp) for _ in range(12)]) for _ in range(n)]
        return [("q12", v) for v in out]
    g = 1 if ty.startswith("g1") else 2
    c = E1 if g == 1 else E2
    pts = [None, g1_gen() if g == 1 else g2_gen()] + [G.subgroup_point(g, rng) for _ in range(n)]
    pts += [c.neg(p) for p in pts[2:4]]
    pts += [P for _, P in rng.sample(G.prefix_points(g), 4)]
    pts += [P for t, P in G.prefix_points(g) if t == "enc-half"][:2]
    out = []
    for P in pts:
        if ty.endswith("a"):
            out.append(V.aff(g, P))
        else:
            if P is None:
                out.append(V.proj(g, *G.identity_rep(g, G.rand_fe(g, rng))))
            else:
                out.append(V.proj(g, *G.rescale(g, P, G.rand_fe(g, rng))))
                out.append(V.proj(g, P[0], P[1], 1 if g == 1 else (1, 0)))
    return out


def run_shard(shard, tier, seed, wd, res):
    ty, part = shard["ty"], shard["part"]
    rng = G.rng_for(seed, ID, ty, part, shard["idx"])
    s = H.Script()
    q = tier == "quick"
    flags = (True, False)
    pointy = ty not in ("fr", "fq12")
    g = 1 if ty.startswith("g1") else 2
    if part == "roundtrip":
        for v in values(ty, rng, 6 if q else 30):
            for cflag in flags:
                b = s.op("ser", v, V.t(cflag), V.n(rng.choice([0, 0, 1, 5])), V.n(-1))
                # writers that take one byte / seven bytes per call, and writers that report Interrupted on every other call
                for ch in (1, 7, 1000, 1003):
                    s.op("ser", v, V.t(cflag), V.n(ch), V.n(-1))
                for mode in (0, 1, 2, 3, 4):
                    s.op("deser", V.s(ty), b, V.t(cflag), V.n(mode), V.n(-1))
                if pointy:
                    s.op("deser", V.s(ty), b, V.t(not cflag), V.n(0), V.n(-1))       # contradicting flag
                # failing writer
                L = len(spec.ser_bytes(v, cflag))
                for fa in sorted(set([0, 1, L - 1, L, L + 5, rng.randrange(L), rng.randrange(L)])):
                    s.op("ser", v, V.t(cflag), V.n(rng.choice([0, 3])), V.n(fa))
    elif part == "streams":
        vs = values(ty, rng, 2)
        v = vs[-1] if shard["idx"] == 0 else rng.choice(vs)
        for cflag in flags if pointy else (True,):
            data = spec.ser_bytes(v, cflag)
            L = len(data)
            step = 1
            for cut in sorted(set(list(range(0, L, step)) + [L - 1, 47, 48, 49, 95, 96, 97])):
                if cut < L:
                    s.op("deser", V.s(ty), V.b(data[:cut]), V.t(cflag), V.n(rng.choice([0, 0, 1, 3])), V.n(-1))
            for extra in (1, 48, 96, 200):
                tail = bytes(rng.getrandbits(8) for _ in range(extra))
                s.op("deser", V.s(ty), V.b(data + tail), V.t(cflag), V.n(rng.choice([0, 1, 2, 4])), V.n(-1))
            s.op("deser", V.s(ty), V.b(data + data), V.t(cflag), V.n(0), V.n(-1))
            # reader failing at byte n
            fstep = 1 if (L <= 200 or not q) else 3
            for fa in sorted(set(list(range(0, L + 3, fstep)) + [L - 1, L, L + 1])):
                s.op("deser", V.s(ty), V.b(data + b"\x00" * 8), V.t(cflag), V.n(rng.choice([0, 0, 1, 2, 4])), V.n(fa))
            s.op("deser", V.s(ty), V.b(b""), V.t(cflag), V.n(0), V.n(-1))
    else:  # hostile
        if ty == "fr":
            for v in [R, R + 1, (1 << 256) - 1, (1 << 255), R - 1, 2 * R, R + (1 << 64)] + G.limb_compare_patterns(R, 256) + [rng.getrandbits(256) for _ in range(40 if q else 400)]:
                s.op("deser", V.s(ty), V.b(v.to_bytes(32, "big")), V.t(rng.random() < 0.5), V.n(rng.choice([0, 1])), V.n(-1))
        elif ty == "fq12":
            for pos in range(12):
                for bad in (Q, Q + 1, (1 << 384) - 1, Q - 1):
                    cs = [rng.randrange(Q) for _ in range(12)]
                    cs[pos] = bad
                    s.op("deser", V.s(ty), V.b(b"".join(c.to_bytes(48, "big") for c in cs)), V.t(rng.random() < 0.5), V.n(rng.choice([0, 4])), V.n(-1))
            lp = G.limb_compare_patterns(Q, 384, rng, 120)
            for i in range(len(lp) // 6):
                cs = [rng.randrange(Q) for _ in range(12)]
                for pos in rng.sample(range(12), 6):
                    cs[pos] = lp[(6 * i + pos) % len(lp)]
                if i % 2:
                    cs = [c if c < Q else rng.randrange(Q) for c in cs]
                s.op("deser", V.s(ty), V.b(b"".join(c.to_bytes(48, "big") for c in cs)), V.t(True), V.n(rng.choice([0, 4])), V.n(-1))
            for _ in range(10 if q else 100):
                s.op("deser", V.s(ty), V.b(bytes(rng.getrandbits(8) for _ in range(576))), V.t(True), V.n(0), V.n(-1))
        else:
            for comp in (True, False):
                n = EN.SIZES[(g, comp)]
                cands = []
                for tag, P in c04.candidates(g, rng, 2):
                    base = bytearray(c04.raw_encode(g, P, comp))
                    for fl in range(8):
                        b = bytearray(base)
                        b[0] = (b[0] & 0x1f) | (fl << 5)
                        cands.append(bytes(b))
                for ci in range(n // 48):
                    P = G.subgroup_point(g, rng)
                    b = bytearray(c04.raw_encode(g, P, comp))
                    fl = b[0] & 0xe0
                    b[48 * ci:48 * ci + 48] = (Q + rng.randrange(3)).to_bytes(48, "big")
                    if ci == 0:
                        b[0] |= fl
                    cands.append(bytes(b))
                for _ in range(10 if q else 100):
                    cands.append(bytes(rng.getrandbits(8) for _ in range(n)))
                for b in cands:
                    for cflag in (True, False):
                        # the stream always holds enough bytes for either flag value
                        s.op("deser", V.s(ty), V.b(b + bytes(192)), V.t(cflag), V.n(rng.choice([0, 0, 1, 4])), V.n(-1))
    builds = BUILDS + (("asan",) if tier == "thorough" and shard["idx"] == 0 else ())
    H.monitor_script(__import__("props.c19", fromlist=["x"]), s.text(), builds, wd, res, shard)


def judge(ctx, rec, res):
    v = spec.judge(ctx, rec, res)
    if rec.op == "ser":
        ty = rec.args[0][0]
        key = (rec.op, ty, rec.args[1][1], "fail@" + ("none" if rec.args[3][1] < 0 else "n"), rec.status, ctx.build)
    else:
        ty, data, comp, mode, fail = [a[1] for a in rec.args]
        L = spec.DESER_LEN[ty][1 if comp else 0]
        sc = "short" if len(data) < L else ("exact" if len(data) == L else "trailing")
        key = (rec.op, ty, comp, "mode%d" % mode, sc, "fail" if fail >= 0 else "", rec.status, ctx.build)
        if rec.status == "ok":
            res.info["successful deserialisations"] += 1
        if len(data) < L:
            res.extra.setdefault("prefix_lengths_" + ty, {})[str(len(data))] = 1
    res.classes[key] += 1
    if len(res.samples) < 6 and rec.op == "deser" and rec.status == "err" and rec.id % 11 == 0:
        res.samples.append(dict(build=ctx.build, op=rec.line[:200], observed="err:" + str(rec.cat)))
    return v
