"""C15 — simplified SWU maps every field element onto the isogenous curve, per RFC 9380."""
from lib import harness as H, spec, vals as V, gen as G
from model.params import Q, R
from model import fields as F
from model import rfc9380 as RF
from model.curves import FQ, FQ2

ID = "C15"
BUILDS = ("rel", "chk")
RULE = ("OSSWUMap::osswu_map (hook re-export) on t in Fq / Fq2: 0, +-1, small values, elements with a zero component, "
        "the exceptional roots of Z^2t^4+Zt^2 (exist in Fq only) and seeded random elements, compared as affine points of "
        "the isogenous curve with the straight-line map_to_curve_simple_swu of RFC 9380 in the model (first candidate "
        "whose g(x) is square, y with sgn0(y) = sgn0(t)); plus the curve constants A', B', Z and the two addition chains "
        "x^((q-3)/4), x^((q^2-9)/16) on 0, 1, -1, random. Every input is classified by the monitor into (which "
        "candidate is square) x (value of g(x1)^((q^2-1)/8) in mu_8 resp. g(x1)^((q-1)/2) in {+-1}: this is what selects "
        "the root-of-unity / eta multiplier) x sgn0(t) x exceptional?, and all 16 (G2) / 4 (G1) cells must be observed")
RULE += (" " + 'G2 inputs whose IMAGE has a real or purely imaginary y (constructed, both candidates) are required classes too.')
ASSUMPTIONS = ["RFC 9380 section 6.6.2 straight-line SSWU as transcribed; model square roots by the q = 3 mod 4 exponent / complex method",
               "the multiplier class is the value of g(x1)^((q^2-1)/8) (G2) resp. the quadratic character (G1), computed in the model"]
EXHAUSTIVE = ["the 2 x 4 x 2 (G2) and 2 x 2 (G1) selection cells (required, see missing_classes)"]
MIN_EVALS = {"quick": 5000, "thorough": 300000}


def sswu_special_inputs(g):
    """inputs t for which an intermediate of the SSWU computation takes a special value (0, +-1, a cube root of unity):
    s = Z t^2 in {+-1}; s^2+s in {0, +-1}; 1 + s^2 + s = 0; the x-denominator -A'(s^2+s) in {+-1, w, w^2} (its cube is 1).
    Constructed by solving the quadratics; only those with a square root in the field exist."""
    f = FQ if g == 1 else FQ2
    iso, Z = (RF.ISO1, RF.Z1) if g == 1 else (RF.ISO2, RF.Z2)
    one, two = f.one, f.small(2)
    om = pow(2, (Q - 1) // 3, Q)
    k = 3
    while om == 1:
        om = pow(k, (Q - 1) // 3, Q)
        k += 1
    om = f.small(om) if g == 1 else (om, 0)
    svals = [one, f.neg(one)]
    targets = [f.zero, one, f.neg(one)]                       # s^2 + s = v
    ainv = f.inv(f.neg(iso.a))
    for v in (one, f.neg(one), om, f.mul(om, om)):            # -A'(s^2+s) = v
        targets.append(f.mul(v, ainv))
    for v in targets:
        disc = f.sqrt(f.add(one, f.mul(f.small(4), v)))       # s = (-1 +- sqrt(1+4v))/2
        if disc is None:
            continue
        for sg in (disc, f.neg(disc)):
            svals.append(f.mul(f.sub(sg, one), f.inv(two)))
    out = []
    for sv in svals:
        if f.is_zero(sv):
            continue
        t = f.sqrt(f.mul(sv, f.inv(Z)))
        if t is not None:
            out += [f.norm(t), f.norm(f.neg(t))]
    return out


def sswu_image_special_inputs(rng, want=6):
    """G2 inputs whose SWU IMAGE has a y-coordinate with a zero coefficient (y in Fq, or purely imaginary), reached as
    first and as second candidate. x = a + b*I with Im(x^3 + A'x + B') = 0 makes y^2 an element of Fq, hence y real or
    purely imaginary; the SWU map is then inverted for that x (s = Z t^2 solves a quadratic for either candidate)."""
    f = FQ2
    iso, Z = RF.ISO2, RF.Z2
    A, B = iso.a, iso.b
    assert A == (0, 240) and B == (1012, 1012)
    one, two, four = f.one, f.small(2), f.small(4)
    out, tries = [], 0
    kinds = set()
    while (len(out) < want or len(kinds) < 4) and tries < 400:
        tries += 1
        b = rng.randrange(1, Q)
        # 3b a^2 + 240 a + (1012 - b^3) = 0
        disc = F.fq_sqrt((240 * 240 - 12 * b * (1012 - b ** 3)) % Q)
        if disc is None:
            continue
        a = (-240 + rng.choice([1, -1]) * disc) * pow(6 * b, -1, Q) % Q
        x = (a, b)
        gx = iso.rhs(x)
        assert gx[1] == 0
        c = f.mul(f.neg(f.mul(A, x)), f.inv(B))            # c = -A'x/B'
        svals = []
        w = f.sub(c, one)                                   # candidate 1: 1/(s^2+s) = c - 1
        if not f.is_zero(w):
            d = f.sqrt(f.add(one, f.mul(four, f.inv(w))))
            if d is not None:
                svals += [f.mul(f.sub(d, one), f.inv(two)), f.mul(f.sub(f.neg(d), one), f.inv(two))]
        e = f.sub(one, c)                                   # candidate 2: s^2 + (1-c) s + (1-c) = 0
        d = f.sqrt(f.sub(f.mul(e, e), f.mul(four, e)))
        if d is not None:
            svals += [f.mul(f.sub(d, e), f.inv(two)), f.mul(f.sub(f.neg(d), e), f.inv(two))]
        for sv in svals:
            if f.is_zero(sv):
                continue
            t = f.sqrt(f.mul(sv, f.inv(Z)))
            if t is None:
                continue
            for tt in (f.norm(t), f.norm(f.neg(t))):
                P, info = RF.sswu(iso, Z, tt)
                if P[0] == f.norm(x) and (P[1][0] == 0 or P[1][1] == 0):
                    out.append(tt)
                    kinds.add((info["which"], P[1][0] == 0))
    return out


def plan(tier, seed):
    shards, no = [], 0
    q = tier == "quick"
    for g in (1, 2):
        shards.append(dict(no=no, g=g, part="special", idx=0)); no += 1
        for i in range(6 if q else 400):
            shards.append(dict(no=no, g=g, part="random", idx=i)); no += 1
    return shards


def run_shard(shard, tier, seed, wd, res):
    g, part = shard["g"], shard["part"]
    rng = G.rng_for(seed, ID, g, part, shard["idx"])
    s = H.Script()
    gp = "g%d" % g
    f = FQ if g == 1 else FQ2
    T = (lambda v: ("q", v)) if g == 1 else (lambda v: ("q2", v))
    if part == "special":
        from props.c14 import exceptional_inputs
        vals = [f.zero, f.one, f.neg(f.one)] + [f.small(k) for k in range(2, 12)] + [f.neg(f.small(k)) for k in range(2, 6)] + exceptional_inputs(g)
        vals += sswu_special_inputs(g)
        if g == 2:
            vals += sswu_image_special_inputs(rng)
            for a in (1, 2, Q - 1, (Q - 1) // 2, rng.randrange(Q)):
                vals += [(a, 0), (0, a), (a, a), (a, Q - a)]
            # first coefficient at limb boundaries (value and Montgomery domain), second coefficient odd / even
            for c0 in G.field_boundary(Q, 381):
                vals += [(c0, 1), (c0, 2), (1, c0)]
        else:
            vals += G.field_boundary(Q, 381)
            vals += [(Q - 1) // 2, (Q + 1) // 2, (1 << 384) % Q]
        for v in vals:
            s.op(gp + ".osswu", T(f.norm(v)))
        s.op(gp + ".osswu_consts")
        ch = "chain_pm3div4" if g == 1 else "chain_p2m9div16"
        for v in [f.zero, f.one, f.neg(f.one)] + [f.rand(rng) for _ in range(60)]:
            s.op(ch, T(f.norm(v)))
    else:
        for _ in range(700 if g == 1 else 500):
            s.op(gp + ".osswu", T(f.rand(rng)))
        ch = "chain_pm3div4" if g == 1 else "chain_p2m9div16"
        for _ in range(40):
            s.op(ch, T(f.rand(rng)))
    H.monitor_script(__import__("props.c15", fromlist=["x"]), s.text(), BUILDS, wd, res, shard)


_MU8 = {}


def mu8_index(v):
    """index of an 8th root of unity of Fq2 (0..7) — only used to name the selection cell"""
    if not _MU8:
        # a primitive 8th root of unity: sqrt(u) in Fq2
        z = F.f2_sqrt((0, 1))
        cur = F.F2_ONE
        for i in range(8):
            _MU8[cur] = i
            cur = F.f2_mul(cur, z)
        assert len(_MU8) == 8 and cur == F.F2_ONE
    return _MU8.get(v, -1)


def judge(ctx, rec, res):
    v = spec.judge(ctx, rec, res)
    if not rec.op.endswith(".osswu"):
        res.classes[(rec.op, rec.status, ctx.build)] += 1
        return v
    g = 1 if rec.op.startswith("g1") else 2
    f = FQ if g == 1 else FQ2
    iso, Z = (RF.ISO1, RF.Z1) if g == 1 else (RF.ISO2, RF.Z2)
    t = rec.args[0][1]
    P, info = RF.sswu(iso, Z, t)
    if g == 1:
        mult = F.fq_legendre(info["gx1"])
    else:
        mult = mu8_index(F.f2_pow(info["gx1"], (Q * Q - 1) // 8))
    cell = ("cand%d" % info["which"], "mult=%s" % mult, "sgn0=%d" % f.sgn0(t))
    res.classes[(rec.op,) + cell + ("exceptional" if info["exceptional"] else "", rec.status, ctx.build)] += 1
    res.info["cell g%d %s %s %s" % ((g,) + cell)] += 1
    if g == 2 and P is not None and (P[1][0] == 0 or P[1][1] == 0):
        res.info["image g2 cand%d y.%s=0" % (info["which"], "c0" if P[1][0] == 0 else "c1")] += 1
        res.classes[(rec.op, "image y.%s=0" % ("c0" if P[1][0] == 0 else "c1"), "cand%d" % info["which"], "y other coeff %s" % ("odd" if (P[1][1] if P[1][0] == 0 else P[1][0]) & 1 else "even"), rec.status, ctx.build)] += 1
    if v is None and rec.status == "ok":
        # on the isogenous curve, and the sign convention (implied by equality with the model; counted explicitly)
        Pl = iso.from_jacobian(*rec.outs[0][1])
        res.evals += 1
        if not iso.on_curve(Pl):
            return "a point of y^2 = x^3 + A'x + B'"
        if Pl is not None and f.sgn0(Pl[1]) != f.sgn0(t):
            return "sgn0(y) = sgn0(t)"
    if len(res.samples) < 5 and (info["exceptional"] or rec.id % 97 == 0):
        res.samples.append(dict(build=ctx.build, op=rec.line[:260], cell=list(cell), exceptional=info["exceptional"], observed=rec.status))
    return v


def missing_classes(res, tier):
    miss = []
    for cand in (1, 2):
        for sg in (0, 1):
            for m in (1, -1):
                pass
    # G1: candidate 1 <=> gx1 square (mult=1), candidate 2 <=> mult=-1
    for (cand, m) in ((1, 1), (2, -1)):
        for sg in (0, 1):
            k = "cell g1 cand%d mult=%s sgn0=%d" % (cand, m, sg)
            if not res.info.get(k):
                miss.append(k)
    # G2: square gx1 <=> even index of g(x1)^((q^2-1)/8) in mu_8
    for idx in range(8):
        cand = 1 if idx % 2 == 0 else 2
        for sg in (0, 1):
            k = "cell g2 cand%d mult=%s sgn0=%d" % (cand, idx, sg)
            if not res.info.get(k):
                miss.append(k)
    # images whose y has a zero coefficient, through either candidate
    for cand in (1, 2):
        for co in ("c0", "c1"):
            k = "image g2 cand%d y.%s=0" % (cand, co)
            if not res.info.get(k):
                miss.append(k)
    return miss
