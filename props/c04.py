"""C04 — point decoding accepts exactly canonical encodings of subgroup points."""
from lib import harness as H, spec, vals as V, gen as G
from model.params import Q, R
from model import encoding as EN
from model import fields as F
from model.curves import E1, E2, FQ, FQ2, g1_gen, g2_gen

ID = "C04"
BUILDS = ("rel", "chk")
RULE = ("byte strings built from candidates {identity, generator, random subgroup points (both sort-flag values), a "
        "point of every prime order dividing the cofactor, points of order r*l, full-order curve points, x with no square "
        "root, off-curve (x, y) pairs} in all four encodings with EVERY combination of the three flag bits; each "
        "coordinate (each Fq2 component separately) replaced by q, q+1, and the largest value the field allows; infinity "
        "encodings with a stray bit at sampled positions; uniformly random strings and random strings with valid flags; "
        "decoded with the checked and the unchecked decoder. The model decoder validates in the order form flag -> "
        "infinity/sort flags -> coordinate range -> curve -> subgroup and the monitor compares success/failure, the decoded "
        "point and the error category (the coordinate name inside the coordinate error is not compared). A case is (op, "
        "flag bits, model outcome, candidate order class, build)")
RULE += (" " + 'Candidates include subgroup points (found by search, frozen as multiples of the generator, recomputed in the model) with a coordinate whose leading 16 bits equal those of the modulus or are zero.')
ASSUMPTIONS = ["model decoder written from the format description; subgroup membership by model multiplication with r",
               "error categories are compared, not messages"]
EXHAUSTIVE = ["8 flag combinations x 4 encodings x candidate classes", "out-of-range substitution of every coordinate component"]
MIN_EVALS = {"quick": 3000, "thorough": 100000}


def plan(tier, seed):
    shards, no = [], 0
    q = tier == "quick"
    for g in (1, 2):
        for comp in (True, False):
            for part in ("flags", "range", "infinity"):
                shards.append(dict(no=no, g=g, comp=comp, part=part, idx=0)); no += 1
            for i in range(6 if q else 40):
                shards.append(dict(no=no, g=g, comp=comp, part="random", idx=i)); no += 1
    return shards


def candidates(g, rng, n_sub=3):
    c = E1 if g == 1 else E2
    f = FQ if g == 1 else FQ2
    out = [("O", None), ("gen", g1_gen() if g == 1 else g2_gen())]
    for _ in range(n_sub):
        P = G.subgroup_point(g, rng)
        out.append(("sub", P))
        out.append(("sub", c.neg(P)))
    # subgroup points with a coordinate whose leading bytes equal those of the modulus / are zero
    pp = G.prefix_points(g)
    for tag, P in rng.sample(pp, 2 * n_sub) + [tp for tp in pp if tp[0] == "enc-half"]:
        out.append((tag, P))
        out.append((tag, c.neg(P)))
    so = G.small_order_points(g, rng)
    for l, P in so.items():
        out.append(("ord%d" % l, P))
    out.append(("ord r*l", G.order_rl_point(g, rng, min(so))))
    out.append(("full", c.random_point(rng)))
    # x without a square root / off-curve pair
    while True:
        x = f.rand(rng)
        if c.lift_x(x) is None:
            out.append(("noroot", (f.norm(x), f.rand(rng))))
            break
    P = c.random_point(rng)
    out.append(("offcurve", (P[0], f.norm(f.add(P[1], f.one)))))
    if g == 2:
        # on-curve points whose y lies in Fq (c1 = 0) or is purely imaginary (c0 = 0): the sort-flag comparison must
        # then fall through to the other coefficient. x = a + b u with 3 a^2 b - b^3 = -4.
        found = 0
        while found < 8:
            b_ = rng.randrange(1, Q)
            a2 = (b_ ** 3 - 4) * pow(3 * b_, -1, Q) % Q
            a_ = F.fq_sqrt(a2)
            if a_ is None:
                continue
            x = (a_, b_)
            P2 = c.lift_x(x)
            if P2 is None:
                continue
            assert P2[1][0] == 0 or P2[1][1] == 0
            out.append(("y-real" if P2[1][1] == 0 else "y-imag", P2))
            out.append(("y-real" if P2[1][1] == 0 else "y-imag", c.neg(P2)))
            found += 1
    # on-curve points whose y (G2: y.c1, or y.c0 when y.c1 = 0) is adjacent to the threshold (q-1)/2 of the sort order
    for P in G.y_threshold_points(g, rng, 4 * n_sub):
        out.append(("y~(q-1)/2", P))
    # an order-r point of an isomorphic twist: (l^2 x, l^3 y) of a subgroup point (off the curve, but [r] kills it)
    S = subgroup_pt = G.subgroup_point(g, rng)
    lam = f.small(2)
    l2 = f.mul(lam, lam)
    out.append(("twist-order-r", (f.norm(f.mul(S[0], l2)), f.norm(f.mul(S[1], f.mul(l2, lam))))))
    return out


def raw_encode(g, P, comp):
    """format bytes for an arbitrary coordinate pair (also off-curve ones), flags for the 'honest' encoding"""
    if P is None:
        return EN.encode(g, None, comp)
    n = EN.SIZES[(g, comp)]
    b = bytearray(EN._fe_bytes(g, P[0]) + (b"" if comp else EN._fe_bytes(g, P[1])))
    if comp:
        b[0] |= 0x80
        if EN._larger(g, P[1]):
            b[0] |= 0x20
    assert len(b) == n
    return bytes(b)


def run_shard(shard, tier, seed, wd, res):
    g, comp, part = shard["g"], shard["comp"], shard["part"]
    rng = G.rng_for(seed, ID, g, comp, part, shard["idx"])
    s = H.Script()
    gp = "g%d" % g
    ops = [gp + (".dec_c" if comp else ".dec_u"), gp + (".dec_c_unchecked" if comp else ".dec_u_unchecked")]
    n = EN.SIZES[(g, comp)]
    q = tier == "quick"

    again = []

    PLACES = (0, 1, 2, 3, 4, 5, 6, 7, 8, 9, 12, 15)

    def emit(b, place=None):
        # the encoding object is placed at a varying address modulo 16 (the outcome must not depend on it)
        for op in ops:
            s.op(op, V.b(bytes(b)), V.n(rng.choice(PLACES) if place is None else place))
        if rng.random() < 0.2:
            again.append(bytes(b))

    if part == "flags":
        for tag, P in candidates(g, rng, 2 if q else 6):
            base = bytearray(raw_encode(g, P, comp))
            for fl in range(8):
                b = bytearray(base)
                b[0] = (b[0] & 0x1f) | (fl << 5)
                emit(b)
    elif part == "range":
        ncomp = n // 48
        cands = [P for _, P in candidates(g, rng, 1) if P is not None][:6]
        for P in cands:
            base = bytearray(raw_encode(g, P, comp))
            for ci in range(ncomp):
                limit = (1 << 381) - 1 if ci == 0 else (1 << 384) - 1
                for v in (Q, Q + 1, Q - 1, limit, Q + (1 << 64), limit - 1, 1 << 381 if ci else Q + 2):
                    b = bytearray(base)
                    fl = b[0] & 0xe0
                    b[48 * ci:48 * ci + 48] = (v & ((1 << 384) - 1)).to_bytes(48, "big")
                    if ci == 0:
                        b[0] = (b[0] & 0x1f) | fl
                    emit(b)
                    if comp:
                        b[0] ^= 0x20
                        emit(b)
            # a valid coordinate plus k * 2^381 in a component that has no flag bits: must be a range error
            for ci in range(1, ncomp):
                for k in (1, 2, 4, 7):
                    b = bytearray(base)
                    v = int.from_bytes(b[48 * ci:48 * ci + 48], "big") + (k << 381)
                    b[48 * ci:48 * ci + 48] = v.to_bytes(48, "big")
                    emit(b)
            # two components out of range at once (the first failing one decides nothing observable but the category)
            if ncomp >= 2:
                b = bytearray(base)
                fl = b[0] & 0xe0
                for ci in range(ncomp):
                    b[48 * ci:48 * ci + 48] = Q.to_bytes(48, "big")
                b[0] = (b[0] & 0x1f) | fl
                emit(b)
    elif part == "infinity":
        base = bytearray(EN.encode(g, None, comp))
        emit(base)
        for bit in sorted(set(list(range(0, 16)) + [n * 8 - 1, n * 8 - 2, 383, 384, 385, n * 4] + [rng.randrange(n * 8) for _ in range(24)])):
            if bit < n * 8:
                b = bytearray(base)
                b[bit // 8] ^= 0x80 >> (bit % 8)
                emit(b)
        for _ in range(10):
            b = bytearray(rng.getrandbits(8) for _ in range(n))
            b[0] = (b[0] & 0x1f) | (0xc0 if comp else 0x40) | (rng.getrandbits(1) << 5)
            emit(b)
        # several dirty bytes that cancel under a fold (equal bytes: XOR; b and 256-b: sum; equal 8-byte words: word XOR;
        # bytes AND-ing to zero): a zero test implemented as a reduction over the payload must not be fooled
        for _ in range(6):
            i1, i2 = sorted(rng.sample(range(1, n), 2))
            v = rng.randrange(1, 256)
            for v2 in (v, (256 - v) % 256 or 1, v ^ 0xff):
                b = bytearray(base)
                b[i1], b[i2] = v, v2
                emit(b)
            w1, w2 = sorted(rng.sample(range(1, n // 8), 2))
            word = bytes(rng.getrandbits(8) for _ in range(8))
            b = bytearray(base)
            b[8 * w1:8 * w1 + 8] = word
            b[8 * w2:8 * w2 + 8] = word
            emit(b)
            b = bytearray(base)
            b[i1] = v
            b[0] ^= v                     # cancels against the flag byte itself
            emit(b)
        # one dirty byte near either end of the payload x every placement of the object
        for pos in list(range(1, 9)) + list(range(n - 8, n)):
            for place in PLACES:
                b = bytearray(base)
                b[pos] = rng.choice([1, 0x80, 0xff])
                emit(b, place)
    else:
        c = E1 if g == 1 else E2
        for _ in range(60 if q else 400):
            b = bytearray(rng.getrandbits(8) for _ in range(n))
            emit(b)                                   # uniformly random
            b[0] = (b[0] & 0x1f) | (0x80 if comp else 0) | ((rng.getrandbits(1) << 5) if comp else 0)
            emit(b)                                   # valid flags, random body (often out of range)
            b[0] &= 0x9f if comp else 0x0f            # in-range x more likely
            for ci in range(n // 48):
                v = rng.randrange(Q)
                b[48 * ci:48 * ci + 48] = v.to_bytes(48, "big")
            b[0] |= (0x80 | (rng.getrandbits(1) << 5)) if comp else 0
            emit(b)                                   # in-range coordinates: compressed -> full-order points or no root
        for _ in range(12 if q else 80):
            # valid subgroup / full-curve points through the model encoder, then one random bit flipped
            P = G.subgroup_point(g, rng) if rng.random() < 0.6 else c.random_point(rng)
            b = bytearray(raw_encode(g, P, comp))
            emit(b)
            bit = rng.randrange(n * 8)
            b[bit // 8] ^= 0x80 >> (bit % 8)
            emit(b)
    # a sample of the strings is decoded a second (and third) time later in the same process: the verdict on a byte string
    # must not depend on earlier calls
    for b in again:
        for op in ops:
            s.op(op, V.b(b))
        s.op(ops[0], V.b(b))
    # thorough tier: a share of the hostile strings also runs under AddressSanitizer ("never panics / no invalid access")
    builds = BUILDS + (("asan",) if tier == "thorough" and shard["idx"] % 8 == 0 else ())
    H.monitor_script(__import__("props.c04", fromlist=["x"]), s.text(), builds, wd, res, shard)


def judge(ctx, rec, res):
    v = spec.judge(ctx, rec, res)
    name = rec.op.split(".")[1]
    g = 1 if rec.op.startswith("g1") else 2
    data = rec.args[0][1]
    comp = name.startswith("dec_c")
    st, val = EN.decode(g, data, comp, checked=not name.endswith("unchecked"), subgroup_oracle=spec.sub_oracle)
    st2, val2 = EN.decode(g, data, comp, checked=False) if st == "err" and val in ("curve", "subgroup") else (None, None)
    cls = "-"
    if st == "ok":
        cls = G.point_class(g, val) if val is not None else "O"
    elif val == "subgroup" and st2 == "ok":
        cls = G.point_class(g, val2)
    key = (rec.op, "flags=%d" % (data[0] >> 5), st if st == "ok" else "err:" + val, cls, rec.status, ctx.build)
    res.classes[key] += 1
    res.info["model:" + (st if st == "ok" else val)] += 1
    if len(res.samples) < 8 and st == "err" and val in ("subgroup", "info", "coord") and rec.id % 5 == 0:
        res.samples.append(dict(build=ctx.build, op=rec.line[:300], model="err:" + val, observed="%s:%s" % (rec.status, rec.cat)))
    return v
