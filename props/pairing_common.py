"""Shared oracle pieces for C03 / C11 / C12 (pairing checks)."""
from lib import spec
from model.params import Q, R, FINAL_EXP
from model import fields as F
from model import pairing as PA
from model.curves import E1, E2, g1_gen, g2_gen

_PAIR = {}


def textbook(P, Qp):
    """model reduced pairing (tower), cached"""
    key = (P, Qp)
    if key not in _PAIR:
        if len(_PAIR) > 5000:
            _PAIR.clear()
        _PAIR[key] = PA.pairing(P, Qp)
    return _PAIR[key]


def gt_pow(e, k):
    return PA.gt_pow(e, k)


def trace_scalar(ctx, rec, i):
    """If argument i of `rec` is (an affine / projective form of) [k]B with B a literal point or the generator and the
    multiplication performed by a logged library call, return (B as a model point, k, group); else (point, 1, group).
    Derived from the op graph in the log, never from generator labels."""
    val = rec.args[i]
    g, P = spec.pt(val)
    src = rec.srcs[i]
    k = 1
    seen = 0
    while isinstance(src, int) and seen < 8:
        seen += 1
        r = ctx.recs[src]
        name = r.op.split(".")[-1]
        if name in ("to_affine", "to_proj", "to_affine_from", "to_proj_from"):
            src = r.srcs[0]
            val = r.args[0]
            continue
        if name in ("mul", "amul") and r.status == "ok":
            k = k * r.args[1][1]
            val = r.args[0]
            src = r.srcs[0]
            continue
        if name in ("neg", "aneg") and r.status == "ok":
            k = -k
            val = r.args[0]
            src = r.srcs[0]
            continue
        if name in ("one", "aone"):
            return (g1_gen() if g == 1 else g2_gen()), k % R, g
        break
    else:
        pass
    if isinstance(src, int):
        return P, 1, g          # untraceable producer: treat the value itself as the base
    return spec.pt(val)[1], k % R, g


def expected_product(ctx, pairs):
    """pairs: list of ((B1,a), (B2,b)) -> expected target-group element (tower), using one textbook pairing per distinct base pair"""
    acc = {}
    for (B1, a), (B2, b) in pairs:
        if B1 is None or B2 is None or a % R == 0 or b % R == 0:
            continue
        acc[(B1, B2)] = (acc.get((B1, B2), 0) + a * b) % R
    out = F.F12_ONE
    for (B1, B2), e in acc.items():
        if e:
            out = F.f12_mul(out, gt_pow(textbook(B1, B2), e))
    return out
