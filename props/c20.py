"""C20 — all operations are deterministic and independent of concurrent use.

Legs (DESIGN section 5):
  rel/threads : 16 OS threads run the same op set in their own seeded permutations over SHARED wNAF tables, digit
                strings, prepared pairing elements and precomputation tables, with seeded yields / spins injected at the
                library's probe points; every result must be bit-identical to the sequential baseline, which itself is
                judged against the model. Interleaving fingerprints are recorded from the probe sequence.
  history     : the same ops on one thread after different prefixes / in different orders.
  tsan        : the threaded run under ThreadSanitizer, with and without probes.
  asan        : sequential + threaded run under AddressSanitizer.
  memcheck    : a slice of cheap ops under valgrind memcheck.
  miri        : a micro workload (field ops, point additions, shared window table used by 3 threads, isogeny evaluation
                with its unsafe accessor) under Miri with several scheduler seeds.
Hang detection is by CPU time: ops pending and no CPU progress for 60 s => violation; wall budget exceeded while the CPU
time advances => inconclusive.
"""
import collections
import glob
import os
import re
import shutil
import subprocess
import time

from lib import harness as H, spec, vals as V, gen as G
from model.params import Q, R
from model import fields as F
from model import rfc9380 as RF
from model import encoding as EN
from model.curves import E1, E2, FQ, FQ2, g1_gen, g2_gen

ID = "C20"
BUILDS = ("rel", "chk")
RULE = ("one mixed script (~400 ops from every family: field, curve, scalar multiplication paths, MSM, encodings, "
        "hashing, maps, pairings, serialisation) executed (1) sequentially, (2) by 16 threads x R rounds, each thread in "
        "its own seeded permutation, sharing by reference one set of wNAF tables (Wnaf::shared), digit strings, G1/G2 "
        "prepared elements and precomputation tables, with seeded yields/spins at the library's probe points, (3) three "
        "more times on one thread in different orders; a case is one (op, execution context) pair, an evaluation is one "
        "bit-exact comparison of an execution's raw output with the sequential baseline (plus the model comparison of "
        "the baseline itself); distinct_nontrivial counts distinct (op id, thread) pairs that executed concurrently plus "
        "distinct interleaving fingerprints observed. Sanitizer legs: TSan (with and without probes), ASan, memcheck, Miri")
RULE += (" " + 'Readers / writers that fail, panic or call back into the library (nested calls compared with the same calls outside); first-call leg: degenerate inputs as the first library call on freshly spawned threads; no CPU progress for 60 s with operations pending is reported as a hang.')
ASSUMPTIONS = ["schedules are sampled, not enumerated", "TSan/ASan see the library and std (build-std for TSan); Miri runs a micro workload only (about 1e5x slower than native)",
               "the interleaving fingerprint uses relaxed atomics only, so the monitor adds no synchronisation that could mask a race"]
MIN_EVALS = {"quick": 10000, "thorough": 200000}


def rb(rng, n):
    return bytes(rng.getrandbits(8) for _ in range(n))


def build_script(seed, size=1.0, micro=False):
    """returns (prelude lines, parallel lines)"""
    rng = G.rng_for(seed, ID, "script", micro)
    pre = H.Script()
    par = H.Script()
    par.next = 100000
    g1, g2 = g1_gen(), g2_gen()
    if micro:
        # Miri-sized: no inversions, no scalar multiplications beyond a few bits
        P = V.proj(1, g1[0], g1[1], 1)
        P2 = V.proj(2, g2[0], g2[1], (1, 0))
        pre.raw("SHARE_BASE g1 p1:%x,%x,1 1" % g1)
        pre.raw("SHARE_SCALAR g1 R:b")
        d = pre.op("g1.dbl", P)
        t = pre.op("g1.wnaf_table", P, V.n(2))
        dg = pre.op("g1.wnaf_form", V.RR(0b1011), V.n(2))
        isop = RF.sswu1(7)
        for i in range(3):
            par.op("fq.mul", V.q(rng.randrange(Q)), V.q(rng.randrange(Q)))
            par.op("fq.add", V.q(rng.randrange(Q)), V.q(rng.randrange(Q)))
            par.op("fr.mul", V.r(rng.randrange(R)), V.r(rng.randrange(R)))
            par.op("fq2.mul", V.q2((rng.randrange(Q), rng.randrange(Q))), V.q2((rng.randrange(Q), rng.randrange(Q))))
            par.op("g1.add", P, d)
            par.op("g1.dbl", d)
            par.op("g1.shared_scalar", V.RR(rng.randrange(1, 16)))
            par.op("g1.wnaf_exp", t, dg)
        par.op("g1.shared_base", d)
        par.op("g1.iso", V.proj(1, isop[0], isop[1], 1))
        par.op("g2.add", P2, P2)
        par.op("fq12.mul", ("q12", F.f12_from_coeffs([rng.randrange(Q) for _ in range(12)])), ("q12", F.f12_from_coeffs([rng.randrange(Q) for _ in range(12)])))
        par.op("Q.read_be", V.b(rb(rng, 48)))
        par.op("g1.enc_u", V.aff(1, g1))
        # no hashing op here: digest 0.8 -> generic-array 0.12.4 builds its arrays with mem::uninitialized(), which Miri
        # rejects unconditionally inside the dependency (not a race, not nondeterminism: outside C20); hashing is covered
        # by the memcheck / ASan / TSan legs instead
        par.op("from_okm", V.s("fq"), V.b(rb(rng, 64)))
        par.op("fq.from_repr", V.QQ(rng.getrandbits(384)))
        return pre.lines, par.lines
    pts1 = [E1.mul(rng.randrange(1, R), g1) for _ in range(4)]
    pts2 = [E2.mul(rng.randrange(1, R), g2) for _ in range(4)]
    A1 = [V.aff(1, p) for p in pts1]
    A2 = [V.aff(2, p) for p in pts2]
    J1 = [V.proj(1, *G.rescale(1, p, G.rand_fe(1, rng))) for p in pts1]
    J2 = [V.proj(2, *G.rescale(2, p, G.rand_fe(2, rng))) for p in pts2]
    # ---- shared objects (prelude)
    pre.raw("SHARE_BASE g1 %s 30" % V.fmt(J1[0]))
    pre.raw("SHARE_BASE g2 %s 5" % V.fmt(J2[0]))
    pre.raw("SHARE_SCALAR g1 R:%x" % rng.getrandbits(255))
    pre.raw("SHARE_SCALAR g2 R:%x" % rng.getrandbits(200))
    tab1 = pre.op("g1.wnaf_table", J1[1], V.n(5))
    tab2 = pre.op("g2.wnaf_table", J2[1], V.n(4))
    dig1 = pre.op("g1.wnaf_form", V.RR(rng.getrandbits(255)), V.n(5))
    dig2 = pre.op("g2.wnaf_form", V.RR(rng.getrandbits(255)), V.n(4))
    pre3_1 = pre.op("g1.precomp3", A1[2])
    pre256_1 = pre.op("g1.precomp256", A1[2])
    pre3_2 = pre.op("g2.precomp3", A2[2])
    pre256_2 = pre.op("g2.precomp256", A2[2])
    pp1 = [pre.op("prepare1", a) for a in A1[:3]] + [pre.op("prepare1", V.aff(1, None))]
    pp2 = [pre.op("prepare2", a) for a in A2[:3]] + [pre.op("prepare2", V.aff(2, None))]
    n = lambda k: max(1, int(k * size))
    fe = lambda: V.q(rng.randrange(Q))
    f2 = lambda: V.q2((rng.randrange(Q), rng.randrange(Q)))
    f12 = lambda: ("q12", F.f12_from_coeffs([rng.randrange(Q) for _ in range(12)]))
    f6 = lambda: ("q6", F.f6_from_coeffs([rng.randrange(Q) for _ in range(6)]))
    for _ in range(n(12)):
        par.op("fq.mul", fe(), fe()); par.op("fq.inv", fe()); par.op("fq.sqrt", fe())
        par.op("fr.mul", V.r(rng.randrange(R)), V.r(rng.randrange(R))); par.op("fr.sqrt", V.r(rng.randrange(R)))
        par.op("fq2.mul", f2(), f2()); par.op("fq2.sqrt", f2()); par.op("fq2.inv", f2())
        par.op("fq6.mul", f6(), f6()); par.op("fq12.mul", f12(), f12()); par.op("fq12.inv", f12())
        par.op("fq12.frob", f12(), V.w(rng.randrange(12))); par.op("fq.pow", fe(), V.w(rng.getrandbits(64), rng.getrandbits(64)))
    G1J, G2J = V.proj(1, g1[0], g1[1], 1), V.proj(2, g2[0], g2[1], (1, 0))
    for _ in range(n(8)):
        i, j = rng.randrange(4), rng.randrange(4)
        # the generators themselves (the natural key of a lazily built fixed-base table)
        par.op("g1.mul", G1J, V.RR(rng.getrandbits(255))); par.op("g2.mul", G2J, V.RR(rng.getrandbits(255)))
        par.op("g1.amul", V.aff(1, g1), V.RR(rng.getrandbits(255))); par.op("g2.amul", V.aff(2, g2), V.RR(rng.getrandbits(64)))
        par.op("g1.add", J1[i], J1[j]); par.op("g2.add", J2[i], J2[j])
        par.op("g1.addm", J1[i], A1[j]); par.op("g2.dbl", J2[i]); par.op("g1.to_affine", J1[i]); par.op("g2.to_affine", J2[j])
        par.op("g1.mul", J1[i], V.RR(rng.getrandbits(255))); par.op("g2.amul", A2[j], V.RR(rng.getrandbits(128)))
        par.op("g1.batch_norm", V.lst([J1[i], J1[j], J1[(i + 1) % 4]]))
        if _ < 2:
            # long batches on threads with the default (2 MiB) stack: the result must not depend on the calling thread
            par.op("g2.batch_norm_n", J2[j], V.n(rng.choice([3000, 4200, 6000])))
            par.op("g1.batch_norm_n", J1[i], V.n(rng.choice([5000, 9000, 12000])))
        par.op("g1.wnaf_exp", tab1, dig1); par.op("g2.wnaf_exp", tab2, dig2)
        par.op("g1.shared_scalar", V.RR(rng.getrandbits(255))); par.op("g2.shared_scalar", V.RR(rng.getrandbits(255)))
        par.op("g1.shared_base", J1[i]); par.op("g2.shared_base", J2[j])
        par.op("g1.mul_pre3", A1[2], V.RR(rng.getrandbits(256)), pre3_1); par.op("g1.mul_pre256", A1[2], V.RR(rng.getrandbits(256)), pre256_1)
        par.op("g2.mul_pre3", A2[2], V.RR(rng.getrandbits(256)), pre3_2); par.op("g2.mul_pre256", A2[2], V.RR(rng.getrandbits(256)), pre256_2)
        ks = V.lst([V.RR(rng.getrandbits(255)) for _ in range(4)])
        par.op("g1.msm", V.lst(A1), ks); par.op("g2.msm_pip", V.lst(A2), ks, V.n(rng.randrange(1, 8)))
        par.op("g1.in_subgroup", A1[i]); par.op("g2.in_subgroup", A2[j])
    # the generators in NON-normalised representatives (a lazily built fixed-base table must not capture the first
    # caller's representative: the call orders differ between the processes whose raw outputs are compared), and one
    # scalar recoded for several window sizes (a recoding memo keyed too loosely)
    GL1 = [V.proj(1, *G.rescale(1, g1, G.rand_fe(1, rng))) for _ in range(2)]
    GL2 = [V.proj(2, *G.rescale(2, g2, G.rand_fe(2, rng))) for _ in range(2)]
    kw = V.RR(rng.getrandbits(255))
    for i in range(2):
        par.op("g1.mul", GL1[i], V.RR(rng.getrandbits(254))); par.op("g2.mul", GL2[i], V.RR(rng.getrandbits(254)))
        par.op("g1.mul", GL1[i], kw); par.op("g1.mul", G1J, kw)
    for w_ in (3, 4, 5, 7, 4, 3):
        par.op("g1.wnaf_form", kw, V.n(w_)); par.op("g2.wnaf_form", kw, V.n(w_))
    # caller-defined point types whose conversion re-enters the library / panics, then the plain calls again
    for i in range(2):
        par.op("pairing_product_re", A1[i], A2[i], A1[i + 1], A2[i + 1], V.n(1))
        par.op("pairing_product_re", A1[i], A2[i], A1[i + 1], A2[i + 1], V.n(2))
        par.op("pairing_product", A1[i], A2[i], A1[i + 1], A2[i + 1])
        par.op("pairing_re", A1[i], A2[i + 1], V.n(1)); par.op("pairing_re", A1[i], A2[i + 1], V.n(2)); par.op("pairing", A1[i], A2[i + 1])
    for _ in range(n(6)):
        i = rng.randrange(4)
        par.op("g1.enc_c", A1[i]); par.op("g2.enc_u", A2[i])
        par.op("g1.dec_c", V.b(EN.encode(1, pts1[i], True))); par.op("g2.dec_u", V.b(EN.encode(2, pts2[i], False)))
        par.op("g1.dec_c", V.b(rb(rng, 48))); par.op("g2.dec_c", V.b(bytes([0x80 | rng.getrandbits(5)]) + rb(rng, 95)))
        par.op("ser", J1[i], V.t(rng.random() < 0.5), V.n(0), V.n(-1)); par.op("ser", f12(), V.t(True), V.n(3), V.n(-1))
        par.op("deser", V.s("g2a"), V.b(EN.encode(2, pts2[i], True)), V.t(True), V.n(1), V.n(-1))
        par.op("deser", V.s("fr"), V.b(rb(rng, 32)), V.t(True), V.n(0), V.n(-1))
        x = rng.choice(["sha256", "sha512", "shake128", "shake256"])
        par.op("expand", V.s(x), V.b(rb(rng, rng.randrange(0, 80))), V.b(rb(rng, 16)), V.n(rng.choice([32, 96, 128])))
        par.op("h2f", V.s("fq2"), V.s(x), V.b(rb(rng, 20)), V.b(b"tag"), V.n(2))
        for x2 in ("sha256", "sha512", "shake128"):
            par.op("h2f", V.s("fq"), V.s(x2), V.b(b"same message"), V.b(b"same tag"), V.n(2))
            par.op("g1.hash", V.s(x2), V.b(b"same message"), V.b(b"same tag"))
        par.op("g1.hash", V.s(x), V.b(rb(rng, 12)), V.b(b"C20")); par.op("g2.encode", V.s(x), V.b(rb(rng, 12)), V.b(b"C20"))
        par.op("g1.map2", fe(), fe()); par.op("g2.map", f2()); par.op("g1.osswu", fe()); par.op("g2.osswu", f2())
        par.op("g1.clear_h", J1[i]); par.op("g2.clear_h", J2[i])
    # caller-supplied readers / writers that fail, panic, or call back into the library from inside read() / write():
    # the library must hold nothing (lock, borrowed scratch buffer) across its calls into caller code, and an aborted
    # call must leave nothing behind; each hostile call is followed by the plain call on the same value
    sv = [J1[0], J2[1], A1[2], A2[3], f12(), V.r(rng.randrange(R))]
    for v_ in sv:
        for cfl in (True, False):
            Lb = len(spec.ser_bytes(v_, cfl))
            par.op("ser", v_, V.t(cfl), V.n(0), V.n(-1))
            par.op("ser", v_, V.t(cfl), V.n(2000 + rng.choice([0, 1, 7])), V.n(-1))              # re-entrant writer
            par.op("ser", v_, V.t(cfl), V.n(rng.choice([0, 5])), V.n(rng.randrange(Lb)))            # failing writer
            par.op("ser", v_, V.t(cfl), V.n(0), V.n(-1))
            par.op("ser", v_, V.t(cfl), V.n(4000), V.n(rng.randrange(Lb)))                            # panicking writer
            par.op("ser", v_, V.t(cfl), V.n(3), V.n(-1))
    for ty_, v_ in (("g1", J1[0]), ("g2", J2[1]), ("g1a", A1[2]), ("g2a", A2[3]), ("fq12", sv[4]), ("fr", sv[5])):
        for cfl in (True, False):
            data = spec.ser_bytes(v_, cfl)
            Lb = len(data)
            par.op("deser", V.s(ty_), V.b(data), V.t(cfl), V.n(8 | rng.choice([0, 1, 4])), V.n(-1))  # re-entrant reader
            par.op("deser", V.s(ty_), V.b(data), V.t(cfl), V.n(rng.choice([0, 1])), V.n(rng.randrange(Lb)))   # failing reader
            par.op("deser", V.s(ty_), V.b(data), V.t(cfl), V.n(0), V.n(-1))
            par.op("deser", V.s(ty_), V.b(data), V.t(cfl), V.n(16), V.n(rng.randrange(Lb)))          # panicking reader
            par.op("deser", V.s(ty_), V.b(data), V.t(cfl), V.n(2), V.n(-1))
    # calls OUTSIDE the documented domain that end in a panic (caught by the caller): they are part of the call
    # history / schedule too, and must not leave anything behind that changes a later result
    big = V.lst([V.RR(rng.getrandbits(254)), V.RR((1 << 255) | rng.getrandbits(200)), V.RR(rng.getrandbits(255)), V.RR((1 << 255) + 5)])
    for _ in range(n(2)):
        par.op("g1.msm", V.lst(A1), big)
        par.op("g2.msm_pip", V.lst(A2), big, V.n(rng.randrange(2, 7)))
        par.op("g1.msm_pip", V.lst(A1), big, V.n(rng.randrange(2, 7)))
        par.op("expand", V.s("sha256"), V.b(b"x"), V.b(b"y"), V.n(8161 + rng.randrange(100)))
        par.op("g1.wnaf_exp", tab1, dig2)        # digits recoded for another window: may index past the table
        par.op("h2f", V.s("fq"), V.s("sha512"), V.b(b"m"), V.b(b"t"), V.n(300))
    # hostile decodings (on the curve, outside the subgroup; off the curve) - each one several times: a memo keyed on
    # the input must not change the answer of a repeated call
    for g_, c_, gpn in ((1, E1, "g1"), (2, E2, "g2")):
        so = G.small_order_points(g_, rng)
        for Pn in [so[min(so)], c_.random_point(rng)]:
            for comp in (True, False):
                bts = V.b(EN.encode(g_, Pn, comp))
                for _ in range(3):
                    par.op(gpn + (".dec_c" if comp else ".dec_u"), bts)
                par.op("deser", V.s(gpn), bts, V.t(comp), V.n(0), V.n(-1))
                par.op("deser", V.s(gpn + "a"), bts, V.t(comp), V.n(0), V.n(-1))
                par.op(gpn + (".dec_c" if comp else ".dec_u"), bts)
    # memoisation probe: a sample of the operations above is issued a second time with identical operands
    for line in rng.sample(par.lines, min(40, len(par.lines))):
        i = par.next
        par.next += 1
        par.lines.append("%d %s" % (i, line.split(" ", 1)[1]))
    # contention block: many threads prepare the same few G2 points and run Miller loops at the same time (a process-wide
    # cache or lazily built table behind prepare() / miller_loop() would be hit here)
    for _ in range(n(24)):
        i, j = rng.randrange(3), rng.randrange(2)
        par.op(rng.choice(["pairing", "pair_with_12"]), A1[i], A2[j])
    for _ in range(n(5)):
        i, j = rng.randrange(3), rng.randrange(3)
        par.op("pairing", A1[i], A2[j])
        par.op("pairing", A1[(i + 1) % 3], A2[j])
        par.op("pair_with_21", A2[j], A1[i])
        m = par.op("miller", V.lst([pp1[i], pp2[j], pp1[(i + 1) % 4], pp2[(j + 2) % 4]]))
        # list entries that share one prepared object (same G2 element twice, same G1 element twice, a repeated pair),
        # each followed by its twin in which every entry is an object of its own
        for lst in ([pp1[i], pp2[j], pp1[(i + 1) % 3], pp2[j]], [pp1[i], pp2[j], pp1[i], pp2[(j + 1) % 3]],
                    [pp1[i], pp2[j], pp1[i], pp2[j], pp1[(i + 2) % 3], pp2[j]]):
            md = rng.randrange(9)
            par.op("miller", V.lst(lst), V.n(md))
            par.op("miller", V.lst(lst), V.n(md | 16))
        par.lines[-1] = par.lines[-1]  # result of miller is consumed by the next op through its own id
        par.op("final_exp", f12())
        par.op("pairing_multi", V.lst([A1[i], A1[j]]), V.lst([A2[j], A2[i]]))
        if _ == 0:
            # a long list (implementations may split the work into blocks / worker threads)
            # (aperiodic choice of operands: a permutation of blocks must change the product)
            par.op("pairing_multi", V.lst([A1[rng.randrange(4)] for k_ in range(40)]), V.lst([A2[rng.randrange(4)] for k_ in range(40)]))
        par.op("prepare2", A2[j])
    return pre.lines, par.lines


def first_calls_script(seed):
    """Operations on the values a default-initialised cache / memo entry would collide with (all-zero and all-ones byte
    strings, identity encodings, zero and one field elements, identity points, empty messages and tags). Run on many
    freshly spawned threads in shuffled order, so that each of them is the FIRST library call on some thread."""
    rng = G.rng_for(seed, ID, "first-calls")
    s = H.Script()
    s.next = 200000
    for g_, gpn in ((1, "g1"), (2, "g2")):
        for comp in (True, False):
            n_ = EN.SIZES[(g_, comp)]
            dec = gpn + (".dec_c" if comp else ".dec_u")
            strings = [bytes(n_), b"\xff" * n_, EN.encode(g_, None, comp), EN.encode(g_, g1_gen() if g_ == 1 else g2_gen(), comp),
                       bytes([0x80 if comp else 0]) + bytes(n_ - 1), bytes([0x40]) + bytes(n_ - 1), bytes([0xc0]) + bytes(n_ - 2) + b"\x01"]
            for b_ in strings:
                s.op(dec, V.b(b_))
                s.op(dec + "_unchecked", V.b(b_))
            for b_ in strings[:4]:
                s.op("deser", V.s(gpn), V.b(b_), V.t(comp), V.n(0), V.n(-1))
                s.op("deser", V.s(gpn + "a"), V.b(b_), V.t(comp), V.n(0), V.n(-1))
        O = V.aff(g_, None)
        s.op(gpn + ".enc_c", O); s.op(gpn + ".enc_u", O); s.op(gpn + ".amul", O, V.RR(0)); s.op(gpn + ".amul", O, V.RR(1))
        s.op(gpn + ".in_subgroup", O); s.op(gpn + ".msm", V.lst([]), V.lst([])); s.op(gpn + ".msm", V.lst([O]), V.lst([V.RR(0)]))
        s.op(gpn + ".hash", V.s("sha256"), V.b(b""), V.b(b"")); s.op(gpn + ".encode", V.s("shake128"), V.b(b""), V.b(b""))
        z = V.q(0) if g_ == 1 else V.q2((0, 0))
        s.op(gpn + ".map", z); s.op(gpn + ".map2", z, z); s.op(gpn + ".osswu", z)
        s.op(gpn + ".clear_h", V.proj(g_, *G.identity_rep(g_, G.rand_fe(g_, rng))))
    s.op("deser", V.s("fr"), V.b(bytes(32)), V.t(True), V.n(0), V.n(-1))
    s.op("deser", V.s("fr"), V.b(b"\xff" * 32), V.t(True), V.n(0), V.n(-1))
    s.op("deser", V.s("fq12"), V.b(bytes(576)), V.t(True), V.n(0), V.n(-1))
    s.op("deser", V.s("fq12"), V.b(b"\xff" * 576), V.t(True), V.n(0), V.n(-1))
    for fam, z in (("fq", V.q(0)), ("fr", V.r(0)), ("fq2", V.q2((0, 0)))):
        s.op(fam + ".inv", z); s.op(fam + ".sqrt", z); s.op(fam + ".sqr", z)
    s.op("fq.sqrt", V.q(1)); s.op("fq2.sqrt", V.q2((1, 0))); s.op("fq.from_repr", V.QQ(0)); s.op("fr.from_repr", V.RR(0))
    s.op("expand", V.s("sha256"), V.b(b""), V.b(b""), V.n(0)); s.op("expand", V.s("shake256"), V.b(b""), V.b(b""), V.n(0))
    s.op("h2f", V.s("fq"), V.s("sha256"), V.b(b""), V.b(b""), V.n(0)); s.op("h2f", V.s("fq2"), V.s("sha256"), V.b(b""), V.b(b""), V.n(1))
    s.op("from_okm", V.s("fq"), V.b(bytes(64))); s.op("from_okm", V.s("fr"), V.b(bytes(48)))
    s.op("pairing", V.aff(1, None), V.aff(2, None)); s.op("final_exp", ("q12", F.F12_ZERO)); s.op("final_exp", ("q12", F.F12_ONE))
    s.op("pairing_multi", V.lst([]), V.lst([]))
    return s.lines


def ctx_history_script(seed):
    """Long-lived helper objects: a wNAF context that has been used before must return, for the same call, the very
    bits a fresh context returns. Each case is (fresh context: call X) vs (context with a history: ..., call X); the
    histories stage the same point in another representation, the same point normalised, another point with the same
    / another window, the same scalar again. Returns (script text, [(id fresh, id reused, label)])."""
    rng = G.rng_for(seed, ID, "ctx-history")
    s = H.Script()
    pairs = []
    for g_, gpn, c_, gen in ((1, "g1", E1, g1_gen()), (2, "g2", E2, g2_gen())):
        for case in range(10):
            P = c_.mul(rng.randrange(1, R), gen)
            Qp = c_.mul(rng.randrange(1, R), gen)
            lam = G.rand_fe(g_, rng)
            one = FQ.one if g_ == 1 else FQ2.one
            reps = {"z=l": V.proj(g_, *G.rescale(g_, P, lam)), "z=1": V.proj(g_, P[0], P[1], one),
                    "z=l2": V.proj(g_, *G.rescale(g_, P, G.rand_fe(g_, rng))), "other": V.proj(g_, *G.rescale(g_, Qp, lam))}
            ks = V.lst([V.RR(rng.getrandbits(255)) for _ in range(3)])
            num = rng.choice([1, 3, 20, 200])
            first, second = [("z=l", "z=1"), ("z=1", "z=l"), ("z=l", "z=l2"), ("other", "z=l"), ("z=l", "z=l")][case % 5]
            num1 = num if case < 5 else rng.choice([1, 3, 20, 200])
            fresh = s.op(gpn + ".ctx_new")
            a = s.op(gpn + ".ctx_base", fresh, reps[second], V.n(num), ks, V.n(case % 2))
            used = s.op(gpn + ".ctx_new")
            s.op(gpn + ".ctx_base", used, reps[first], V.n(num1), ks, V.n(0))
            b = s.op(gpn + ".ctx_base", used, reps[second], V.n(num), ks, V.n(case % 2))
            pairs.append((a.id, b.id, "%s base: %s (n=%d) then %s (n=%d)" % (gpn, first, num1, second, num)))
            # scalar-first staging: same scalar again / another scalar first
            k1, k2 = V.RR(rng.getrandbits(255)), V.RR(rng.getrandbits(rng.choice([64, 255])))
            bs = V.lst([reps["z=l"], reps["z=1"]])
            fresh = s.op(gpn + ".ctx_new")
            a = s.op(gpn + ".ctx_scalar", fresh, k1, bs, V.n(case % 2))
            used = s.op(gpn + ".ctx_new")
            s.op(gpn + ".ctx_scalar", used, k2 if case % 2 else k1, bs, V.n(0))
            s.op(gpn + ".ctx_base", used, reps["other"], V.n(num1), ks, V.n(0))
            b = s.op(gpn + ".ctx_scalar", used, k1, bs, V.n(case % 2))
            pairs.append((a.id, b.id, "%s scalar: staged scalar, staged base, same scalar again" % gpn))
    return s.text(), pairs


def long_history_script(seed, tier):
    """One thread, a long call history that is PERIODIC at the scales where small counters wrap (256 and 65536 calls or
    Pippenger windows) and that returns to earlier operands after more distinct operands than any plausible cache
    holds. Every result is judged against the model, so any dependence on the history shows as a wrong value."""
    rng = G.rng_for(seed, ID, "long-history")
    s = H.Script()
    g1, g2 = g1_gen(), g2_gen()
    P1 = [V.aff(1, E1.mul(rng.randrange(1, R), g1)) for _ in range(3)]
    P2 = [V.aff(2, E2.mul(rng.randrange(1, R), g2)) for _ in range(3)]
    # (a) G1 and G2 multi-scalar multiplications interleaved with identical sparse scalars and windows
    sparse = [V.RR(sum(1 << rng.randrange(255) for _ in range(2))) for _ in range(2)]
    for rep in range(4):
        for w in (2, 3, 5):
            s.op("g1.msm_pip", V.lst(P1[:2]), V.lst(sparse), V.n(w))
            s.op("g2.msm_pip", V.lst(P2[:2]), V.lst(sparse), V.n(w))
        s.op("g1.msm", V.lst(P1[:2]), V.lst(sparse))
        s.op("g2.msm", V.lst(P2[:2]), V.lst(sparse))
    # (b) periodic sparse history: for window w a call runs ceil(256/w) window iterations; after 65536 iterations the same
    #     calls are issued again (a 16-bit epoch / generation counter would have wrapped exactly once)
    zero = s.op("g1.msm_pip", V.lst(P1[:1]), V.lst([V.RR(0)]), V.n(4))            # warm-up, also a register for reuse
    lst1 = V.lst(P1[:1])
    for w, per_call in ((4, 64), (8, 32)):
        ncalls = 65536 // per_call
        marks = {rng.randrange(ncalls): (rng.randrange(1, 1 << w), rng.randrange(0, 250 // w)) for _ in range(6)}
        for _pass in range(2):
            for i in range(ncalls):
                if i in marks:
                    d, pos = marks[i]
                    s.op("g1.msm_pip", lst1, V.lst([V.RR(d << (pos * w))]), V.n(w))
                elif i % 97 == 0 or tier != "quick":
                    s.op("g1.msm_pip", lst1, "l:R:0", V.n(w))
                else:
                    s.raw("%d g1.msm_pip %s l:R:0 n:%d" % (s.next, V.fmt(lst1) if False else "l:" + V.fmt(P1[0]), w)); s.next += 1
    # (c) more distinct G2 operands than any plausible cache holds, then all of them again; same for hostile decodings
    Q = [s.op("g2.to_affine", s.op("g2.amul", V.aff(2, g2), V.RR(k))) for k in range(1, 301 if tier != "quick" else 70)]
    A1 = V.aff(1, g1)
    for _pass in range(2):
        for q_ in Q:
            s.op("pairing", A1, q_)
    # scalar multiplication paths on many distinct bases, then all of them again (a table cache keyed on the base point)
    nb = 40 if tier == "quick" else 300
    bases = [s.op("g1.to_affine", s.op("g1.amul", V.aff(1, g1), V.RR(k + 1000))) for k in range(nb)]
    kfix = V.RR(rng.getrandbits(255))
    for _pass in range(2):
        for b_ in bases:
            s.op("g1.amul", b_, kfix)
            s.op("g1.mul_pre3", b_, kfix, s.op("g1.precomp3", b_))
            s.op("g1.mul", s.op("g1.to_proj", b_), kfix)
    so = G.small_order_points(1, rng)
    host = []
    for k in range(1, 40):
        Pn = E1.add(E1.mul(k, g1), so[3])            # on the curve, outside the subgroup
        host.append(V.b(EN.encode(1, Pn, True)))
    for _pass in range(3):
        for b_ in host:
            s.op("g1.dec_c", b_)
    for _pass in range(2):
        for k in range(60):
            s.op("g1.hash", V.s("sha256"), V.b(b"m%d" % k), V.b(b"long-history"))
    return s.text()


# ---------------------------------------------------------------------------- running

def cpu_seconds(pid):
    try:
        with open("/proc/%d/stat" % pid) as f:
            p = f.read().rsplit(")", 1)[1].split()
        return (int(p[11]) + int(p[12])) / os.sysconf("SC_CLK_TCK")
    except Exception:
        return None


def run_watched(cmd, env, wall_budget, stall=60, cwd=None):
    """-> (status, rc, stderr) with status in ok | hang | slow"""
    e = dict(os.environ)
    e.update(env or {})
    errf = open(os.path.join(cwd or ".", "stderr-%d.txt" % os.getpid()), "w+")
    p = subprocess.Popen(cmd, stdout=subprocess.DEVNULL, stderr=errf, env=e, cwd=cwd)
    t0 = time.time()
    last_cpu, last_change = -1.0, time.time()
    status = "ok"
    while True:
        try:
            p.wait(timeout=1.0)
            break
        except subprocess.TimeoutExpired:
            pass
        # sum the CPU time of the process and its threads
        c = cpu_seconds(p.pid)
        if c is not None and c > last_cpu + 0.05:
            last_cpu, last_change = c, time.time()
        if time.time() - last_change > stall:
            status = "hang"
            p.kill()
            p.wait()
            break
        if time.time() - t0 > wall_budget:
            status = "slow"
            p.kill()
            p.wait()
            break
    errf.seek(0)
    err = errf.read()
    errf.close()
    return status, p.returncode, err


def parse_par_log(text):
    prelude, S, X, Fp = [], {}, collections.defaultdict(list), []
    ended = False
    mode = "pre"
    for line in text.splitlines():
        if line == "PAR":
            mode = "par"
        elif line == "END":
            ended = True
        elif mode == "pre":
            prelude.append(line)
        elif line.startswith("S "):
            _, i, rest = line.split(" ", 2)
            S[int(i)] = rest
        elif line.startswith("X "):
            _, rnd, th, i, rest = line.split(" ", 4)
            X[int(i)].append((int(rnd), int(th), rest))
        elif line.startswith("F "):
            p = line.split()
            Fp.append((int(p[1]), p[2], int(p[3]), int(p[4])))
    return prelude, S, X, Fp, ended


def teardown_lines(text):
    """('TS', digest) of the main thread and [(round, thread, digest)] of the calls made from thread-local destructors"""
    ts, tl = None, []
    for line in text.splitlines():
        if line.startswith("TS "):
            ts = line.split(" ", 1)[1]
        elif line.startswith("T "):
            _, rnd, th, d = line.split(" ", 3)
            tl.append((int(rnd), int(th), d))
    return ts, tl


_TEARDOWN = []


def teardown_expected():
    """the model's value of the driver's exit_calls()"""
    if not _TEARDOWN:
        g1, g2 = g1_gen(), g2_gen()
        k0 = 0x123456789abcdef0 | (7 << 64) | (0 << 128) | ((1 << 62) << 192)
        k1 = 3 | (0 << 64) | (0xffffffffffffffff << 128) | (5 << 192)
        P = E1.add(E1.mul(k0, g1), E1.mul(k1, E1.add(g1, g1)))
        out = EN.encode(1, P, True) * 2
        out += EN.encode(1, RF.hash_to_curve(1, "sha256", b"thread teardown", b"C20-exit"), True)
        out += EN.encode(2, g2, False)
        out += EN.encode(2, E2.mul(k1, g2), True)
        out += (1).to_bytes(48, "big") + bytes(11 * 48)
        _TEARDOWN.append(out.hex())
    return _TEARDOWN[0]


def judge_par(ctx, rec, res):
    """model judgement of a baseline record (adds the parallel-only ops)"""
    name = rec.op.split(".")[-1]
    if name in ("shared_scalar", "shared_base"):
        g = 1 if rec.op.startswith("g1") else 2
        share = ctx.cache["share"]
        if name == "shared_scalar":
            P = spec.pt(share[("SHARE_BASE", g)])[1]
            return spec.expect_point(res, rec, g, spec.smul(g, rec.args[0][1], P))
        k = share[("SHARE_SCALAR", g)][1]
        return spec.expect_point(res, rec, g, spec.smul(g, k, spec.pt(rec.args[0])[1]))
    if rec.op == "miller" and len(rec.args) > 1 and rec.args[1][1] & 16:
        # twin of the preceding record: the same list, every entry an object of its own instead of shared registers
        prev = ctx.recs.get(rec.id - 1)
        if prev is not None and prev.op == "miller" and prev.toks[0] == rec.toks[0] and prev.status == "ok":
            res.evals += 1
            if rec.status != "ok" or rec.outs != prev.outs:
                return "the same Miller-loop value whether or not list entries share one prepared object: " + V.fmt(prev.outs[0])[:300]
    if rec.op in ("pairing", "pairing_p", "pair_with_12", "pair_with_21", "pairing_multi", "miller", "final_exp", "prepare1", "prepare2", "pairing_re", "pairing_product", "pairing_product_re"):
        from props import c11, c03, c12
        if rec.op in ("pairing", "pairing_p", "pair_with_12", "pair_with_21", "pairing_re"):
            return c03.judge(ctx, rec, H.ShardResult()) or None
        if rec.op == "final_exp":
            return c12.judge(ctx, rec, H.ShardResult())
        return c11.judge(ctx, rec, H.ShardResult())
    return spec.judge(ctx, rec, res)


def threaded_leg(res, wd, pre, par, build, threads, rounds, yseed, probes, env=None, wall=600, tag="", cold=False):
    script = "\n".join(pre + ["PAR"] + par) + "\n"
    sp = os.path.join(wd, "par-%s.txt" % tag)
    lp = os.path.join(wd, "par-%s.log" % tag)
    open(sp, "w").write(script)
    binary = H.build(build)
    status, rc, err = run_watched([binary, sp, lp, "--threads", str(threads), "--rounds", str(rounds), "--yield-seed", str(yseed),
                                   "--probes", "1" if probes else "0"] + (["--baseline-last"] if cold else []), env, wall, cwd=wd)
    text = open(lp).read() if os.path.exists(lp) else ""
    return status, rc, err, text, script


def check_threaded(res, text, script, pre, par, leg, judge_model=True):
    prelude, S, X, Fp, ended = parse_par_log(text)
    if not ended:
        return False
    # (a) bit-identical outputs
    nexec = 0
    for i, base in S.items():
        for rnd, th, out in X.get(i, []):
            nexec += 1
            res.evals += 1
            res.classes[("exec", i, th)] += 1
            if out != base:
                line = next((l for l in par if l.split(" ", 1)[0] == str(i)), "?")
                res.violations.append(dict(kind="nondeterminism", build=leg, id=i, line=line[:1500],
                                           expected="bit-identical to the sequential baseline: " + base[:600],
                                           observed="round %d thread %d: %s" % (rnd, th, out[:600]), script=script))
                if len(res.violations) > 10:
                    return True
    res.info["thread executions compared (%s)" % leg] += nexec
    # library calls made from thread-local destructors (thread teardown) against the same calls on the main thread / the model
    ts, tl = teardown_lines(text)
    if ts is not None:
        res.evals += 1
        if not leg.startswith("miri") and ts != teardown_expected():
            res.violations.append(dict(kind="mismatch", build=leg, id=None, line="exit_calls() on the main thread", expected=teardown_expected()[:400],
                                       observed=ts[:400], script=script))
        for rnd, th, d in tl:
            res.evals += 1
            res.classes[("teardown", th)] += 1
            if d != ts:
                res.violations.append(dict(kind="nondeterminism", build=leg, id=None, line="library calls from a thread-local destructor (round %d thread %d)" % (rnd, th),
                                           expected="the same outputs as on the main thread: " + ts[:300], observed=d[:300], script=script))
                break
        res.info["thread-teardown call groups compared"] += len(tl)
    for (rnd, fp, sw, ev) in Fp:
        res.classes[("interleaving", fp)] += 1
        res.extra.setdefault("fingerprints", {})[fp] = [sw, ev]
        res.info["probe events recorded"] += ev
        res.info["thread switches in probe order"] += sw
    # (b) the baseline itself against the model
    if judge_model:
        seqtext = "\n".join(pre + par) + "\n"
        recs = H.parse_script(seqtext)
        logtext = "\n".join(prelude + ["E %d %s" % (i, r) for i, r in S.items()] + ["END"])
        H.apply_log(recs, logtext, leg)
        H.resolve_args(recs)
        ctx = spec.Ctx(recs, leg)
        share = {}
        for l in pre:
            if l.startswith("SHARE_"):
                p = l.split()
                share[(p[0], 1 if p[1] == "g1" else 2)] = V.parse(p[2])
        ctx.cache["share"] = share
        for r in recs.values():
            if r.status in ("missing", "bad") or r.args is None:
                if r.status == "bad" and not H._dep_failed(r, recs):
                    res.inconclusive.append("harness error on op %d: %s" % (r.id, r.cat))
                continue
            try:
                v = judge_par(ctx, r, res)
            except Exception as ex:
                import traceback
                res.inconclusive.append("monitor error on op %d (%s): %s" % (r.id, r.line[:100], traceback.format_exc()[-400:]))
                continue
            if v is not None and v is not spec.SKIP:
                res.violations.append(dict(kind="mismatch", build=leg, id=r.id, line=r.line[:1500], expected=str(v)[:800],
                                           observed=r.status, script=H.closure(seqtext, r.id)))
    return True


def sanitizer_reports(err, kind):
    if kind == "tsan":
        return len(re.findall(r"WARNING: ThreadSanitizer", err))
    if kind == "asan":
        return len(re.findall(r"ERROR: AddressSanitizer|ERROR: LeakSanitizer", err))
    return 0


def main(tier, seed, procs):
    q = tier == "quick"
    res = H.ShardResult()
    wd = H.work_dir("c20", 0)
    try:
        mst = miri_start(wd, seed, 4 if q else 32)
        miri_pump(mst)
        pre, par = build_script(seed, 1.0 if q else 2.0)
        res.samples.append(dict(parallel_ops=len(par), prelude_ops=len(pre), sample_op=par[7][:200], sample_op2=par[-3][:200]))
        rounds = 4 if q else 50
        # ---- (1)+(2) release build, threads with probes and seeded yields
        rel_base = None
        for k in range(1 if q else 4):
            st, rc, err, text, script = threaded_leg(res, wd, pre, par, "rel", 16, rounds if q else rounds // 2, seed * 1000 + k, True, wall=900, tag="rel%d" % k)
            if rel_base is None and st == "ok":
                rel_base = parse_par_log(text)[1]
            if st == "hang":
                res.violations.append(dict(kind="hang", build="rel", id=None, line="threaded run", expected="progress", observed="no CPU progress for 60 s with operations pending (deadlock?)", script=script))
            elif st == "slow":
                res.inconclusive.append("threaded run exceeded its wall budget while making progress")
            elif rc != 0 or not check_threaded(res, text, script, pre, par, "rel-threads", judge_model=(k == 0)):
                res.violations.append(dict(kind="abort", build="rel", id=None, line="threaded run", expected="clean exit", observed="rc=%s %s" % (rc, err[-500:]), script=script))
        # cold start: the threads are the first users of the library in the process (lazily initialised tables / caches
        # are then first touched concurrently); the sequential baseline runs afterwards
        st, rc, err, text, script = threaded_leg(res, wd, pre, par, "rel", 16, 2, seed + 31, True, wall=900, tag="cold", cold=True)
        if st == "hang":
            res.violations.append(dict(kind="hang", build="rel", id=None, line="threaded run (cold)", expected="progress", observed="no CPU progress for 60 s", script=script))
        elif st == "ok" and (rc != 0 or not check_threaded(res, text, script, pre, par, "rel-threads-cold", judge_model=True)):
            res.violations.append(dict(kind="abort", build="rel", id=None, line="threaded run (cold)", expected="clean exit", observed="rc=%s %s" % (rc, err[-500:]), script=script))
        # first calls: degenerate inputs as the first library call on freshly spawned threads (baseline judged by the model)
        fpar = first_calls_script(seed)
        st, rc, err, text, script = threaded_leg(res, wd, [], fpar, "rel", 16, 8 if q else 64, seed + 13, False, wall=900, tag="firsts")
        if st == "hang":
            res.violations.append(dict(kind="hang", build="rel", id=None, line="threaded run (first calls)", expected="progress", observed="no CPU progress for 60 s", script=script))
        elif st == "ok" and (rc != 0 or not check_threaded(res, text, script, [], fpar, "rel-first-calls", judge_model=True)):
            res.violations.append(dict(kind="abort", build="rel", id=None, line="threaded run (first calls)", expected="clean exit", observed="rc=%s %s" % (rc, err[-500:]), script=script))
        res.info["first-call legs (fresh threads x degenerate inputs)"] += 1
        # overflow-checked build, threads
        st, rc, err, text, script = threaded_leg(res, wd, pre, par, "chk", 16, 2, seed + 77, True, wall=900, tag="chk")
        if st == "hang":
            res.violations.append(dict(kind="hang", build="chk", id=None, line="threaded run", expected="progress", observed="no CPU progress for 60 s", script=script))
        elif st == "ok" and (rc != 0 or not check_threaded(res, text, script, pre, par, "chk-threads", judge_model=False)):
            res.violations.append(dict(kind="abort", build="chk", id=None, line="threaded run", expected="clean exit", observed="rc=%s %s" % (rc, err[-500:]), script=script))
        # ---- (3) history: same ops, one thread, different orders / prefixes
        rel_S = dict(rel_base) if rel_base else None
        hist_ops = [l for l in par if ".shared_" not in l]
        for k in range(3 if q else 8):
            rng = G.rng_for(seed, ID, "history", k)
            order = list(hist_ops)
            rng.shuffle(order)
            if k % 2:
                order = order[len(order) // 3:] + order[: len(order) // 3]
            seq = "\n".join(pre_seq(pre) + order) + "\n"
            sp, lp = os.path.join(wd, "hist%d.txt" % k), os.path.join(wd, "hist%d.log" % k)
            open(sp, "w").write(seq)
            stx, rcx, errx = run_watched([H.build("rel"), sp, lp], None, 900, cwd=wd)
            if stx == "hang":
                res.violations.append(dict(kind="hang", build="rel-history", id=None, line="sequential history run %d" % k, expected="progress",
                                           observed="no CPU progress for 60 s with operations pending (self-deadlock?)", script=seq))
                continue
            recs = H.parse_script(seq)
            ended, open_ids = H.apply_log(recs, open(lp).read() if os.path.exists(lp) else "", "rel-history")
            if rcx != 0 or not ended:
                res.inconclusive.append("history run %d failed rc=%s" % (k, rcx))
                continue
            raw = {}
            for line in open(lp):
                if line.startswith("E "):
                    _, i, rest = line.rstrip("\n").split(" ", 2)
                    raw[int(i)] = rest
            if rel_S is None:
                rel_S = dict(raw)
            for i, out in raw.items():
                if i in rel_S:
                    res.evals += 1
                    res.classes[("history", i, k)] += 1
                    if out != rel_S[i]:
                        line = next((l for l in par if l.split(" ", 1)[0] == str(i)), "?")
                        res.violations.append(dict(kind="history-dependence", build="rel", id=i, line=line[:1500],
                                                   expected="same raw output as in another call order: " + rel_S[i][:500], observed=out[:500], script=seq))
                        break
            res.info["history orders compared"] += 1
        # ---- helper objects with a history against fresh ones (raw output bits)
        ch, chp = ctx_history_script(seed)
        sp, lp = os.path.join(wd, "ctxhist.txt"), os.path.join(wd, "ctxhist.log")
        open(sp, "w").write(ch)
        rcx, secs, errx = H.run_driver(H.build("rel"), sp, lp, 600)
        raw = {}
        if os.path.exists(lp):
            for line in open(lp):
                if line.startswith("E "):
                    _, i, rest = line.rstrip("\n").split(" ", 2)
                    raw[int(i)] = rest
        if rcx != 0 or len(raw) < 2 * len(chp):
            res.inconclusive.append("context-history run failed rc=%s" % rcx)
        else:
            recs = H.parse_script(ch)
            H.apply_log(recs, open(lp).read(), "rel-ctx-history")
            H.resolve_args(recs)
            ctxh = spec.Ctx(recs, "rel-ctx-history")
            for r in recs.values():
                if r.status in ("missing", "bad") or r.args is None or r.op.endswith("ctx_new"):
                    continue
                v = spec.judge(ctxh, r, res)
                if v is not None and v is not spec.SKIP:
                    res.violations.append(dict(kind="mismatch", build="rel-ctx-history", id=r.id, line=r.line[:1500], expected=str(v)[:800], observed=r.status, script=H.closure(ch, r.id)))
            for a_, b_, label in chp:
                res.evals += 1
                res.classes[("ctx-history", label)] += 1
                if raw[a_] != raw[b_]:
                    res.violations.append(dict(kind="history-dependence", build="rel-ctx-history", id=b_, line=recs[b_].line[:1500],
                                               expected="the raw output of the same call on a fresh context (%s): %s" % (label, raw[a_][:500]),
                                               observed=raw[b_][:500], script=ch))
                    break
            res.info["context-history pairs compared (raw bits)"] += len(chp)
        # ---- long sequential history (periodic at counter-wrap scales, returns to earlier operands), judged by the model
        lh = long_history_script(seed, tier)
        sp, lp = os.path.join(wd, "longhist.txt"), os.path.join(wd, "longhist.log")
        open(sp, "w").write(lh)
        rcx, secs, errx = H.run_driver(H.build("rel"), sp, lp, 1800)
        recs = H.parse_script(lh)
        ended, open_ids = H.apply_log(recs, open(lp).read() if os.path.exists(lp) else "", "rel-long-history")
        if rcx != 0 or not ended:
            res.inconclusive.append("long-history run failed rc=%s" % rcx)
        else:
            H.resolve_args(recs)
            ctx = spec.Ctx(recs, "rel-long-history")
            ctx.cache["share"] = {}
            for r in recs.values():
                if r.status in ("missing", "bad") or r.args is None:
                    continue
                try:
                    v = judge_par(ctx, r, res)
                except Exception:
                    import traceback
                    res.inconclusive.append("monitor error on long-history op %d: %s" % (r.id, traceback.format_exc()[-300:]))
                    continue
                if v is not None and v is not spec.SKIP:
                    res.violations.append(dict(kind="history-dependence", build="rel-long-history", id=r.id, line=r.line[:1500],
                                               expected=str(v)[:800], observed=r.status, script=lh))
                    break
            res.info["long-history ops judged"] += len(recs)
        miri_pump(mst)
        # ---- TSan
        for probes in (True, False):
            st, rc, err, text, script = threaded_leg(res, wd, pre, par, "tsan", 16, 2 if q else 6, seed + 5, probes,
                                                     env={"TSAN_OPTIONS": "halt_on_error=0 report_signal_unsafe=0 exitcode=66"}, wall=1500, tag="tsan%d" % probes,
                                                     cold=not probes)
            nrep = sanitizer_reports(err, "tsan")
            res.info["tsan runs"] += 1
            res.info["tsan report blocks"] += nrep
            if st == "hang":
                res.violations.append(dict(kind="hang", build="tsan", id=None, line="tsan run", expected="progress", observed="no CPU progress for 60 s", script=script))
            elif st == "slow":
                res.inconclusive.append("tsan run exceeded its wall budget")
            elif nrep or rc == 66:
                first = err[err.find("WARNING: ThreadSanitizer"):][:1800]
                res.violations.append(dict(kind="data-race", build="tsan", id=None, line="threaded run (probes=%s)" % probes,
                                           expected="no ThreadSanitizer report", observed=first, script=script))
            elif rc != 0:
                res.inconclusive.append("tsan run rc=%s: %s" % (rc, err[-300:]))
            else:
                check_threaded(res, text, script, pre, par, "tsan-threads", judge_model=False)
        miri_pump(mst)
        # ---- ASan: threaded + sequential
        st, rc, err, text, script = threaded_leg(res, wd, pre, par, "asan", 8, 1, seed + 9, True,
                                                 env={"ASAN_OPTIONS": "detect_leaks=1:halt_on_error=1:abort_on_error=0:exitcode=67"}, wall=1500, tag="asan")
        nrep = sanitizer_reports(err, "asan")
        res.info["asan runs"] += 1
        res.info["asan report blocks"] += nrep
        if nrep or rc == 67:
            res.violations.append(dict(kind="memory-error", build="asan", id=None, line="asan run", expected="no AddressSanitizer report",
                                       observed=err[err.find("ERROR:"):][:1800], script=script))
        elif st != "ok" or rc != 0:
            res.inconclusive.append("asan run status=%s rc=%s %s" % (st, rc, err[-300:]))
        else:
            check_threaded(res, text, script, pre, par, "asan-threads", judge_model=False)
        # ---- memcheck on a slice of cheap ops (release build)
        cheap = [l for l in par if l.split()[1].split(".")[-1] in ("mul", "add", "addm", "dbl", "to_affine", "enc_c", "enc_u", "dec_c", "dec_u", "ser", "deser", "expand", "h2f", "osswu", "batch_norm", "inv", "frob", "in_subgroup")
                 and not l.split()[1].startswith(("g2.in_sub", "g1.in_sub"))]
        cheap = [l for l in cheap if not (l.split()[1] in ("g1.mul", "g2.mul")) and "$" not in l][:150]
        vs = "\n".join(pre_seq(pre)[:0] + cheap) + "\n"
        sp, lp = os.path.join(wd, "vg.txt"), os.path.join(wd, "vg.log")
        open(sp, "w").write(vs)
        t0 = time.time()
        p = subprocess.run(["valgrind", "--tool=memcheck", "--error-exitcode=68", "--leak-check=no", "-q", H.build("rel"), sp, lp],
                           stdout=subprocess.PIPE, stderr=subprocess.PIPE, timeout=1800)
        verr = p.stderr.decode("utf8", "replace")
        nerr = len(re.findall(r"^==\d+== (Invalid|Conditional jump|Use of uninitialised|Syscall param)", verr, re.M))
        res.info["memcheck ops"] += len(cheap)
        res.info["memcheck errors"] += nerr
        if p.returncode == 68 or nerr:
            res.violations.append(dict(kind="memcheck", build="valgrind", id=None, line="memcheck slice", expected="no memcheck error", observed=verr[:1800], script=vs))
        elif p.returncode != 0:
            res.inconclusive.append("valgrind rc=%s %s" % (p.returncode, verr[-300:]))
        else:
            recs = H.parse_script(vs)
            H.apply_log(recs, open(lp).read(), "memcheck")
            for r in recs.values():
                res.evals += 1
                if rel_S and r.id in rel_S:
                    pass
        # ---- Miri (started at the beginning, collected here)
        miri_finish(res, mst)
    finally:
        try:
            for s_, (p_, _, ef, _) in list(mst["running"].items()):
                p_.kill()
        except Exception:
            pass
        shutil.rmtree(wd, ignore_errors=True)
    nfp = len(res.extra.get("fingerprints", {}))
    res.info["distinct interleaving fingerprints"] = nfp
    return res


def pre_seq(pre):
    """prelude without the SHARE_ directives (sequential driver mode does not know them)"""
    return [l for l in pre if not l.startswith("SHARE_")]


def miri_start(wd, seed, nseeds):
    """launch the Miri processes (they run while the other legs execute); returns a state object"""
    pre, par = build_script(seed, micro=True)
    script = "\n".join(pre + ["PAR"] + par) + "\n"
    sp = os.path.join(wd, "miri.txt")
    open(sp, "w").write(script)
    return dict(pre=pre, par=par, script=script, sp=sp, crate=miri_crate(), pending=list(range(nseeds)), running={}, results={},
                t0=time.time(), seed=seed, wd=wd, maxpar=4 if nseeds <= 4 else 12)


def miri_pump(st):
    env = dict(os.environ, CARGO_NET_OFFLINE="true", CARGO_TARGET_DIR=os.path.join(H.ROOT, ".build/target-miri"))
    while st["pending"] and len(st["running"]) < st["maxpar"]:
        s = st["pending"].pop(0)
        lp = os.path.join(st["wd"], "miri-%d.log" % s)
        e = dict(env, MIRIFLAGS="-Zmiri-disable-isolation -Zmiri-seed=%d" % (st["seed"] * 100 + s))
        errf = open(os.path.join(st["wd"], "miri-%d.err" % s), "w")
        p = subprocess.Popen(["cargo", "+nightly", "miri", "run", "--offline", "-q", "--", st["sp"], lp, "--threads", "3", "--rounds", "1", "--yield-seed", str(s + 1), "--probes", "1"],
                             cwd=st["crate"], env=e, stdout=subprocess.DEVNULL, stderr=errf)
        st["running"][s] = (p, lp, errf, time.time())
    for s, (p, lp, errf, ts) in list(st["running"].items()):
        if p.poll() is not None:
            errf.close()
            st["results"][s] = (p.returncode, lp, open(errf.name).read())
            del st["running"][s]
        elif time.time() - ts > 3000:
            p.kill()
            errf.close()
            st["results"][s] = (None, lp, "timeout")
            del st["running"][s]


def miri_finish(res, st):
    while st["pending"] or st["running"]:
        miri_pump(st)
        time.sleep(1.0)
    pre, par, script = st["pre"], st["par"], st["script"]
    for s, (rc, lp, err) in sorted(st["results"].items()):
        res.info["miri seeds run"] += 1
        if rc is None:
            res.inconclusive.append("miri seed %d timed out" % s)
            continue
        if "Undefined Behavior" in err or "error: unsupported operation" in err or "Data race detected" in err or "error: memory leaked" in err:
            res.violations.append(dict(kind="miri", build="miri", id=None, line="miri micro workload seed %d" % s, expected="no Miri error",
                                       observed=err[err.find("error"):][:1800], script=script))
            continue
        if rc != 0:
            res.inconclusive.append("miri seed %d rc=%s: %s" % (s, rc, err[-400:]))
            continue
        text = open(lp).read() if os.path.exists(lp) else ""
        if not check_threaded(res, text, script, pre, par, "miri-threads", judge_model=(s == 0)):
            res.inconclusive.append("miri seed %d produced no complete log" % s)
    res.info["miri wall seconds"] = int(time.time() - st["t0"])


def miri_crate():
    """the generated driver crate for the current repo path (same one the build script uses)"""
    repo = os.path.realpath(os.environ.get("VERIF_REPO", "/repo"))
    import hashlib
    tag = hashlib.md5(repo.encode()).hexdigest()[:8]
    d = os.path.join(H.ROOT, ".build", "crate-" + tag)
    if not os.path.exists(os.path.join(d, "Cargo.toml")):
        H.build("rel")
    return d


def signature(v):
    return None


def replay(d, meta):
    """Re-run a recorded C20 script against the current tree: threaded run (same build family), bit-exact comparison with
    the sequential baseline, the baseline against the model, and sanitizer report count."""
    script = open(os.path.join(d, "script.txt")).read()
    if "PAR" not in script.split("\n"):
        # a sequential history (history-dependence finding): re-run it in order and re-judge every record with the model
        res = H.ShardResult()
        wd = H.work_dir("c20-replay", 0)
        try:
            sp, lp = os.path.join(wd, "s.txt"), os.path.join(wd, "s.log")
            open(sp, "w").write(script)
            rcx, secs, errx = H.run_driver(H.build("rel"), sp, lp, 1800)
            recs = H.parse_script(script)
            ended, open_ids = H.apply_log(recs, open(lp).read() if os.path.exists(lp) else "", "rel-history")
            if rcx != 0 or not ended:
                print("INCONCLUSIVE property=C20 reason=replay run failed rc=%s" % rcx)
                return 2
            H.resolve_args(recs)
            ctx = spec.Ctx(recs, "rel-history")
            ctx.cache["share"] = {}
            for r in recs.values():
                if r.status in ("missing", "bad") or r.args is None:
                    continue
                v = judge_par(ctx, r, res)
                if v is not None and v is not spec.SKIP:
                    print("VIOLATION property=C20 replay=%s" % d)
                    print("  build=rel-history op: %s" % r.line[:300])
                    print("  expected: %s" % str(v)[:300])
                    print("  observed: %s" % r.status)
                    return 1
        finally:
            shutil.rmtree(wd, ignore_errors=True)
        print("OK property=C20 replay passes on the current tree (%d comparisons)" % res.evals)
        return 0
    lines = script.split("\n")
    k = lines.index("PAR")
    pre, par = [l for l in lines[:k] if l.strip()], [l for l in lines[k + 1:] if l.strip()]
    b = str(meta.get("violation", {}).get("build", "rel"))
    build = "tsan" if b.startswith("tsan") else "asan" if b.startswith("asan") else "chk" if b.startswith("chk") else "rel"
    if build == "rel" and b.startswith("miri"):
        print("INCONCLUSIVE property=C20 reason=Miri findings are replayed with: cargo +nightly miri run (see script.txt)")
        return 2
    res = H.ShardResult()
    wd = H.work_dir("c20-replay", 0)
    try:
        env = {"TSAN_OPTIONS": "halt_on_error=0 exitcode=66"} if build == "tsan" else {"ASAN_OPTIONS": "exitcode=67"} if build == "asan" else None
        st, rc, err, text, sc = threaded_leg(res, wd, pre, par, build, 16, 6, 4242, True, env=env, wall=1500, tag="replay")
        nrep = sanitizer_reports(err, build)
        if st == "hang":
            res.violations.append(dict(kind="hang", build=build, line="threaded run", expected="progress", observed="no CPU progress"))
        elif nrep or rc in (66, 67):
            res.violations.append(dict(kind="sanitizer", build=build, line="threaded run", expected="no sanitizer report", observed=err[:600]))
        elif rc != 0 or not check_threaded(res, text, sc, pre, par, build + "-threads", judge_model=True):
            res.violations.append(dict(kind="abort", build=build, line="threaded run", expected="clean exit", observed="rc=%s" % rc))
    finally:
        shutil.rmtree(wd, ignore_errors=True)
    if res.violations:
        v = res.violations[0]
        print("VIOLATION property=C20 replay=%s" % d)
        print("  build=%s op: %s" % (v.get("build"), str(v.get("line"))[:300]))
        print("  expected: %s" % str(v.get("expected"))[:300])
        print("  observed: %s" % str(v.get("observed"))[:300])
        return 1
    if res.inconclusive:
        print("INCONCLUSIVE property=C20 reason=%s" % " | ".join(res.inconclusive)[:1000])
        return 2
    print("OK property=C20 replay passes on the current tree (%d comparisons)" % res.evals)
    return 0
