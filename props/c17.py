"""C17 — cofactor clearing is multiplication by the RFC h_eff on the whole curve."""
from lib import harness as H, spec, vals as V, gen as G
from model.params import Q, R, HEFF1, HEFF2, H1_FACTORS, H2_FACTORS
from model.curves import E1, E2, FQ, FQ2, g1_gen, g2_gen

ID = "C17"
BUILDS = ("rel", "chk")
RULE = ("ClearH::clear_h (hook re-export) on raw points of the FULL curves E(Fq), E'(Fq2): seeded random curve points "
        "(order divisible by the cofactor primes with overwhelming probability; the monitor computes the order profile "
        "of a sample over the cofactor primes and reports it), a point of every small prime order, points of order r*l, "
        "subgroup points, the identity in several Z = 0 representatives, each in several Jacobian representatives. "
        "Oracle: the model's [h_eff]P with h_eff = 0xd201000000010001 resp. the 636-bit RFC constant (both derived from "
        "the curve parameter), and [r] result = O. Additivity is checked on triples (P, Q, P+Q) through the library's own "
        "addition. A case is (group, order class of the input, representation class, build)")
ASSUMPTIONS = ["h_eff derived from x in model/params.py and asserted equal to the RFC literals", "model scalar multiplication"]
MIN_EVALS = {"quick": 500, "thorough": 20000}


def plan(tier, seed):
    shards, no = [], 0
    q = tier == "quick"
    for g in (1, 2):
        shards.append(dict(no=no, g=g, part="special", idx=0)); no += 1
        for i in range((4 if g == 1 else 8) if q else (60 if g == 1 else 160)):
            shards.append(dict(no=no, g=g, part="random", idx=i)); no += 1
    return shards


def run_shard(shard, tier, seed, wd, res):
    g, part = shard["g"], shard["part"]
    rng = G.rng_for(seed, ID, g, part, shard["idx"])
    s = H.Script()
    gp = "g%d" % g
    c = E1 if g == 1 else E2
    f = FQ if g == 1 else FQ2
    lit = lambda P, lam=None: V.proj(g, *G.rescale(g, P, lam if lam is not None else G.rand_fe(g, rng)))
    if part == "special":
        for _ in range(5):
            s.op(gp + ".clear_h", V.proj(g, *G.identity_rep(g, G.rand_fe(g, rng))))
        s.op(gp + ".clear_h", V.proj(g, f.zero, f.one, f.zero))
        gen = g1_gen() if g == 1 else g2_gen()
        for P in [gen, c.neg(gen), G.subgroup_point(g, rng)]:
            s.op(gp + ".clear_h", lit(P, f.one))
            s.op(gp + ".clear_h", lit(P))
        so = G.small_order_points(g, rng, include_big=True)
        for l, P in so.items():
            s.op(gp + ".clear_h", lit(P, f.one))
            s.op(gp + ".clear_h", lit(P))
            for lam in G.special_lambdas(g, rng):
                s.op(gp + ".clear_h", lit(P, lam))
            if l < (1 << 64):
                s.op(gp + ".clear_h", lit(G.order_rl_point(g, rng, l)))
    else:
        for _ in range(12 if g == 1 else 6):
            P = c.random_point(rng)
            o1 = s.op(gp + ".clear_h", lit(P, f.one))
            s.op(gp + ".clear_h", lit(P))
            s.op(gp + ".clear_h", lit(P, f.neg(f.one)))
            s.op(gp + ".clear_h", lit(P, rng.choice(G.special_lambdas(g, rng))))
            # additivity through the library's addition
            Qp = c.random_point(rng)
            o2 = s.op(gp + ".clear_h", lit(Qp))
            o3 = s.op(gp + ".clear_h", lit(c.add(P, Qp)))
            s.op(gp + ".eq", s.op(gp + ".add", o1, o2), o3)
    H.monitor_script(__import__("props.c17", fromlist=["x"]), s.text(), BUILDS, wd, res, shard)


def order_profile(g, P):
    """which cofactor primes divide the order of P (model), as a tuple of primes; 'r' if r divides it"""
    c = E1 if g == 1 else E2
    facs = H1_FACTORS if g == 1 else H2_FACTORS
    n = 1
    for l in facs:
        n *= l
    n *= R
    prof = []
    for l in sorted(set(facs)) + [R]:
        e = 0
        m = n
        while m % l == 0:
            m //= l
        # l divides ord(P) iff [n / l^e_full] P != O
        if c.mul(m, P) is not None:
            prof.append("r" if l == R else (l if l < (1 << 64) else "p448"))
    return tuple(prof)


def judge(ctx, rec, res):
    v = spec.judge(ctx, rec, res)
    g = 1 if rec.op.startswith("g1") else 2
    name = rec.op.split(".")[1]
    f = FQ if g == 1 else FQ2
    if name == "clear_h":
        P = spec.pt(rec.args[0])[1]
        z = rec.args[0][1][2]
        rep = "Z=0" if f.is_zero(z) else "Z=1" if z in (1, (1, 0)) else "Z=-1" if f.is_zero(f.add(z, f.one)) else "Z=*"
        if P is None:
            cl = "O"
        elif P in ctx.cache.setdefault("prof", {}) or len(ctx.cache["prof"]) < 8:
            prof = ctx.cache["prof"]
            if P not in prof:
                prof[P] = order_profile(g, P)
            cl = prof[P]
            res.extra.setdefault("order_profiles_g%d" % g, {})[str(cl)] = 1
        else:
            cl = "curve point"
        res.classes[(rec.op, str(cl), rep, rec.status, ctx.build)] += 1
        if v is None and rec.status == "ok":
            res.evals += 1
            if not spec.in_sub(g, spec.pt(rec.outs[0])[1]):
                return "a result annihilated by r"
        if len(res.samples) < 5 and P is not None and rep == "Z=*":
            res.samples.append(dict(build=ctx.build, op=rec.line[:330], order_class=str(cl), observed=rec.status))
    elif name == "eq":
        res.evals += 1
        res.info["additivity triples"] += 1
        if rec.status != "ok" or rec.outs[0][1] is not True:
            return "clear_h(P) + clear_h(Q) == clear_h(P+Q)"
    return v
