"""C11 — products of pairings: one Miller loop over many pairs equals the product."""
from lib import harness as H, spec, vals as V, gen as G
from model.params import Q, R
from model import fields as F
from model import rfc9380 as RF
from model.curves import E1, E2, g1_gen, g2_gen
from props import pairing_common as PC

ID = "C11"
BUILDS = ("rel", "chk")
RULE = ("Engine::miller_loop over lists of prepared pairs followed by final_exponentiation, pairing_product and "
        "pairing_multi_product, with P_i = [a_i]B1, Q_i = [b_i]B2 (multiples computed by logged library calls from the "
        "generators or from hash-derived points): list lengths 0..12, identities at every position, repeated pairs, "
        "two- and three-term combinations whose exponents cancel mod r, every prepared element reused in several lists "
        "(and prepared once, used many times). Oracle: prod over distinct base pairs of textbook e(B1,B2)^(sum a_i b_i), "
        "computed by the model; exactly 1 when the exponents cancel. A case is (op, list length, #identity pairs, "
        "cancelling?, repeated pairs?, build)")
RULE += (" " + 'The pairs reach miller_loop through nine kinds of iterator (slice, &Vec, filter, uninformative size_hint, chain, VecDeque, from_fn, skip_while+take); prepared slots overwritten in place by Clone::clone_from are used too.')
ASSUMPTIONS = ["textbook pairing model (see C03)", "a Miller-loop value is only judged through its final exponentiation"]
MIN_EVALS = {"quick": 200, "thorough": 10000}


def plan(tier, seed):
    q = tier == "quick"
    return [dict(no=i, idx=i) for i in range(32 if q else 700)]


def run_shard(shard, tier, seed, wd, res):
    rng = G.rng_for(seed, ID, shard["idx"])
    s = H.Script()
    idx = shard["idx"]
    if idx % 4 != 3:
        B1, B2 = V.aff(1, g1_gen()), V.aff(2, g2_gen())
    else:
        m = bytes(rng.getrandbits(8) for _ in range(6))
        B1 = V.aff(1, RF.hash_to_curve(1, "sha256", m, b"C11-G1"))
        B2 = V.aff(2, RF.hash_to_curve(2, "sha256", m, b"C11-G2"))
    O1, O2 = V.aff(1, None), V.aff(2, None)
    pool1, pool2 = [], []     # (affine ref, prepared ref, scalar)
    for _ in range(5):
        a = rng.choice([1, 2, R - 1, rng.getrandbits(254), rng.getrandbits(64)])
        pa = s.op("g1.to_affine", s.op("g1.amul", B1, V.RR(a)))
        pool1.append((pa, s.op("prepare1" if rng.random() < 0.7 else "prepare1_from", pa), a))
        b = rng.choice([1, 3, R - 2, rng.getrandbits(254), rng.getrandbits(64)])
        qa = s.op("g2.to_affine", s.op("g2.amul", B2, V.RR(b)))
        pool2.append((qa, s.op("prepare2" if rng.random() < 0.7 else "prepare2_from", qa), b))
    id1 = (O1, s.op("prepare1", O1), 0)
    id2 = (O2, s.op("prepare2", O2), 0)

    def miller_fe(pairs):
        items = []
        for p, q_ in pairs:
            pp, qp = p[1], q_[1]
            # now and then the prepared element is one that was written over another one in place (Clone::clone_from)
            if rng.random() < 0.08:
                qp = s.op("prepare2_into", rng.choice(pool2 + [id2, id2])[1], qp)
            if rng.random() < 0.04:
                pp = s.op("prepare1_into", rng.choice(pool1 + [id1])[1], pp)
            items += [pp, qp]
        # the generic entry point takes any iterator over the pairs: slice, reference to Vec, filter, iterators with an
        # uninformative size_hint, chain, VecDeque, from_fn, skip_while+take
        f = s.op("miller", V.lst(items), V.n(rng.randrange(9) | (16 if rng.random() < 0.3 else 0)))     # +16: no two entries share an object
        s.op("final_exp", f)

    nlists = 8 if tier == "quick" else 16
    for _ in range(nlists):
        n = rng.choice([0, 1, 1, 2, 2, 3, 4, 5, 7, 9, 12])
        pairs = [(rng.choice(pool1), rng.choice(pool2)) for _ in range(n)]
        # identities at random positions
        for pos in range(n):
            r = rng.random()
            if r < 0.12:
                pairs[pos] = (id1, pairs[pos][1])
            elif r < 0.24:
                pairs[pos] = (pairs[pos][0], id2)
            elif r < 0.28:
                pairs[pos] = (id1, id2)
        if n >= 2 and rng.random() < 0.3:
            pairs[rng.randrange(n)] = pairs[rng.randrange(n)]      # repeated pair
        miller_fe(pairs)
        if rng.random() < 0.5 and n >= 1:
            s.op("pairing_multi", V.lst([p[0] for p, _ in pairs]), V.lst([q_[0] for _, q_ in pairs]))
    # long lists (implementations may process pairs in blocks): pairing_multi_product and miller_loop with many pairs
    for n in rng.sample([13, 15, 16, 17, 18, 24, 31, 32, 33, 40, 48, 64, 65, 100], 3 if tier == "quick" else 6) + [rng.choice([257, 300, 513, 1025])]:
        pairs = [(rng.choice(pool1 + [id1] if rng.random() < 0.1 else pool1), rng.choice(pool2)) for _ in range(n)]
        s.op("pairing_multi", V.lst([p[0] for p, _ in pairs]), V.lst([q_[0] for _, q_ in pairs]))
        if rng.random() < 0.5:
            miller_fe(pairs)
    # n copies of (P,Q) and one ([-n]P, Q): the product must be exactly 1
    n = rng.choice([16, 17, 33])
    p, q_ = rng.choice(pool1), rng.choice(pool2)
    pm = s.op("g1.to_affine", s.op("g1.amul", p[0], V.RR((-n) % R)))
    s.op("pairing_multi", V.lst([p[0]] * n + [pm]), V.lst([q_[0]] * (n + 1)))
    # cancelling combinations: e(P,Q) * e(-P,Q) = 1; e([a]P,Q) e(P,[b]Q) e([-(a+b)]P,Q) = 1
    for _ in range(3):
        p, q_ = rng.choice(pool1), rng.choice(pool2)
        np_a = s.op("g1.aneg", p[0])
        np_ = (np_a, s.op("prepare1", np_a), None)
        miller_fe([(p, q_), (np_, q_)])
        miller_fe([(np_, q_), id_pair(rng, id1, id2, pool1, pool2), (p, q_)])
        s.op("pairing_product", p[0], q_[0], np_a, q_[0])
        nq_a = s.op("g2.aneg", q_[0])
        s.op("pairing_product", p[0], q_[0], p[0], nq_a)
        # equal / opposite operands on one side with DIFFERENT partners (no cancellation): e(p1,q) e(p2,+-q), e(+-p,q1) e(p,q2)
        p2_ = rng.choice([x for x in pool1 if x is not p] or pool1)
        q2_ = rng.choice([x for x in pool2 if x is not q_] or pool2)
        s.op("pairing_product", p[0], q_[0], p2_[0], nq_a)
        s.op("pairing_product", p[0], q_[0], p2_[0], q_[0])
        s.op("pairing_product", p[0], q_[0], np_a, q2_[0])
        s.op("pairing_product", p[0], q_[0], p[0], q2_[0])
        s.op("pairing_multi", V.lst([p[0], p2_[0], p[0], np_a]), V.lst([q_[0], nq_a, q2_[0], q2_[0]]))
        a, b = rng.getrandbits(200), rng.getrandbits(200)
        pa = s.op("g1.to_affine", s.op("g1.amul", p[0], V.RR(a)))
        qb = s.op("g2.to_affine", s.op("g2.amul", q_[0], V.RR(b)))
        pc = s.op("g1.to_affine", s.op("g1.amul", p[0], V.RR((-(a + b)) % R)))
        s.op("pairing_multi", V.lst([pa, p[0], pc]), V.lst([q_[0], qb, q_[0]]))
        miller_fe([((pa, s.op("prepare1", pa), None), q_), (p, (qb, s.op("prepare2", qb), None)), ((pc, s.op("prepare1", pc), None), q_)])
    for _ in range(4):
        p1, q1, p2, q2 = rng.choice(pool1 + [id1]), rng.choice(pool2), rng.choice(pool1), rng.choice(pool2 + [id2])
        s.op("pairing_product", p1[0], q1[0], p2[0], q2[0])
    # operands related by the order-3 automorphism (x, y) -> (beta x, y): distinct points with the SAME y-coordinate
    # (lam = z^2 - 1 is an eigenvalue of it on both groups), on either side of the product
    lam = 0xac45a4010001a40200000000ffffffff
    for _ in range(2):
        p, q_ = rng.choice(pool1), rng.choice(pool2)
        for lm in (lam, (R - 1 - lam) % R):
            p_l = s.op("g1.to_affine", s.op("g1.amul", p[0], V.RR(lm)))
            q_l = s.op("g2.to_affine", s.op("g2.amul", q_[0], V.RR(lm)))
            s.op("pairing_product", p[0], q_[0], p_l, q_[0])
            s.op("pairing_product", p[0], q_[0], p[0], q_l)
            s.op("pairing_product", p[0], q_[0], p_l, q_l)
            s.op("pairing_multi", V.lst([p[0], p_l, p[0]]), V.lst([q_[0], q_[0], q_l]))
    # caller-defined argument types whose conversion re-enters the library (mode 1) or panics (mode 2), then plain again
    for _ in range(2 if idx % 8 == 0 else 0):
        p1, q1, p2, q2 = rng.choice(pool1), rng.choice(pool2), rng.choice(pool1), rng.choice(pool2)
        s.op("pairing_product_re", p1[0], q1[0], p2[0], q2[0], V.n(2))
        s.op("pairing_product", p1[0], q1[0], p2[0], q2[0])
        s.op("pairing_product_re", p2[0], q2[0], p1[0], q1[0], V.n(0))
        s.op("pairing_product_re", p1[0], q1[0], p2[0], q2[0], V.n(1))
        s.op("pairing_re", p1[0], q1[0], V.n(1))
    H.monitor_script(__import__("props.c11", fromlist=["x"]), s.text(), BUILDS, wd, res, shard)


def id_pair(rng, id1, id2, pool1, pool2):
    return rng.choice([(id1, rng.choice(pool2)), (rng.choice(pool1), id2), (id1, id2)])


def pair_terms(ctx, affs1, affs2):
    """[(rec, index) ...] -> [((B1,a),(B2,b))]"""
    out = []
    for (r1, i1), (r2, i2) in zip(affs1, affs2):
        B1, a, _ = PC.trace_scalar(ctx, r1, i1)
        B2, b, _ = PC.trace_scalar(ctx, r2, i2)
        out.append(((B1, a), (B2, b)))
    return out


class _Shim:
    """presents one element of a list argument as argument 0 of a pseudo-record (for trace_scalar)"""
    def __init__(self, val, src):
        self.args, self.srcs = [val], [src]


def _prep_origin(ctx, r):
    """the prepare record a prepared value stems from (through in-place overwrites of other prepared values)"""
    while r.op in ("prepare1_into", "prepare2_into"):
        r = ctx.recs[r.srcs[1]]
    return r


def judge(ctx, rec, res):
    if rec.op.endswith("_re"):
        if rec.args[-1][1] == 2:
            return None if rec.status == "panic" else "the conversion's own panic to reach the caller"
        saved = rec.op
        rec.op = rec.op[:-3]
        try:
            if rec.op == "pairing":
                from props import c03
                return c03.judge(ctx, rec, res)
            return judge(ctx, rec, res)
        finally:
            rec.op = saved
    op = rec.op
    if op in ("prepare1", "prepare2", "prepare1_from", "prepare2_from"):
        res.evals += 1
        if rec.status != "ok":
            return "a prepared element"
        want = spec.pt(rec.args[0])[1] is None
        return None if rec.outs[0][1] == want else "is_zero() == %s" % want
    if op in ("prepare1_into", "prepare2_into"):
        res.evals += 1
        if rec.status != "ok":
            return "a prepared element"
        want = spec.pt(_prep_origin(ctx, rec).args[0])[1] is None
        res.classes[(op, "slot-id" if ctx.recs[rec.srcs[0]].outs[0][1] else "slot-point", "src-id" if want else "src-point", ctx.build)] += 1
        return None if rec.outs[0][1] == want else "is_zero() == %s" % want
    if op == "miller":
        res.classes[("miller", "iterator kind %d" % ((rec.args[1][1] & 15) if len(rec.args) > 1 else 0), "n=%d" % min(len(rec.args[0][1]) // 2, 20), rec.status, ctx.build)] += 1
        if rec.status == "panic":
            res.evals += 1
            return "a Miller-loop value (no panic)"
        return None
    if op not in ("final_exp", "pairing_product", "pairing_multi"):
        v = spec.judge(ctx, rec, res)
        if v is None and op.endswith("aneg"):
            pass
        return v
    if op == "final_exp":
        m = ctx.recs[rec.srcs[0]] if isinstance(rec.srcs[0], int) else None
        if m is None or m.op != "miller":
            return None
        items = m.args[0][1]
        srcs = m.srcs[0]
        a1, a2 = [], []
        for j in range(0, len(items), 2):
            p1 = _prep_origin(ctx, ctx.recs[srcs[j]])
            p2 = _prep_origin(ctx, ctx.recs[srcs[j + 1]])
            a1.append((p1, 0))
            a2.append((p2, 0))
        n = len(items) // 2
    elif op == "pairing_product":
        a1 = [(rec, 0), (rec, 2)]
        a2 = [(rec, 1), (rec, 3)]
        n = 2
    else:
        l1, l2 = rec.args[0][1], rec.args[1][1]
        s1, s2 = rec.srcs[0], rec.srcs[1]
        if len(l1) != len(l2):
            return None
        a1 = [(_Shim(v_, s_), 0) for v_, s_ in zip(l1, s1)]
        a2 = [(_Shim(v_, s_), 0) for v_, s_ in zip(l2, s2)]
        n = len(l1)
    terms = pair_terms(ctx, a1, a2)
    exp = PC.expected_product(ctx, terms)
    res.evals += 1
    if rec.status != "ok":
        return "the product of the pairings (observed %s)" % rec.status
    if rec.outs[0][1] != exp:
        return "prod e(B1,B2)^(sum a_i b_i) = " + V.fmt(("q12", exp))[:300]
    nid = sum(1 for (B1, a), (B2, b) in terms if B1 is None or B2 is None or a % R == 0 or b % R == 0)
    distinct = len(set(terms))
    cancel = exp == F.F12_ONE and n - nid > 0
    res.classes[(op, "n=%d" % n, "ids=%d" % nid, "cancel" if cancel else "", "repeat" if distinct < n - nid else "", ctx.build)] += 1
    if cancel:
        res.info["cancelling products (expected exactly 1)"] += 1
    if len(res.samples) < 4 and (cancel or nid):
        res.samples.append(dict(build=ctx.build, op=rec.line[:200], n=n, identities=nid, cancelling=cancel, observed=V.fmt(rec.outs[0])[:120] + "..."))
    return None
