"""C13 — expand_message and hash_to_field conform to RFC 9380 for all inputs."""
from lib import harness as H, spec, vals as V, gen as G
from model.params import Q, R

ID = "C13"
BUILDS = ("rel", "chk")
RULE = ("ExpandMsg::expand_message for XMD(SHA-256), XMD(SHA-512), XOF(SHAKE128), XOF(SHAKE256): output lengths 0, 1, "
        "b-1, b, b+1, ..., 255*b, 255*b+1 (XMD: must abort) and XOF lengths up to 65535; message lengths 0, 1 and +-1 "
        "around every hash block / sponge rate boundary (55/56, 63/64/65, 111/112, 119/120, 127/128/129, 135/136/137, "
        "167/168/169), 10 kB; tags of length 0, 1, 16, 43, 254, 255; hash_to_field::<Fq|Fr|Fq2> for counts 0, 1, 2, 5, the "
        "largest count XMD allows and one more (must abort); from_okm / from_ro on blocks: all-zero, all-ones, k*m-1, "
        "k*m, k*m+1 for several k up to the top of the block, values around 2^256 / 2^192 (the split point of the "
        "reduction), random. Oracle: RFC 9380 section 5 over hashlib, int.from_bytes(block) mod m. A case is (op, "
        "expander/field, output-length class, message-length class, tag-length, outcome, build)")
RULE += (" " + 'XMD requests far beyond the limit (just above 2^16, 2^32, 2^48, 2^63 and at the top of the usize range) must all abort.')
ASSUMPTIONS = ["hashlib SHA-2 / SHAKE as the independent hash implementation", "RFC 9380 section 5.3 as transcribed in model/rfc9380.py (checked against appendix K vectors)"]
EXHAUSTIVE = ["block-count boundaries ell = 0, 1, 2, 254, 255, 256 for both XMD hashes", "hash_to_field element counts at the XMD limit and limit+1 for Fq, Fr, Fq2"]
MIN_EVALS = {"quick": 8000, "thorough": 200000}

XS = ["sha256", "sha512", "shake128", "shake256", "sha224", "sha384", "sha512_224", "sha512_256"]
XMD_B = {"sha256": 32, "sha512": 64, "sha224": 28, "sha384": 48, "sha512_224": 28, "sha512_256": 32}
MSG_LENS = [0, 1, 2, 31, 32, 33, 55, 56, 57, 63, 64, 65, 111, 112, 113, 119, 120, 127, 128, 129, 135, 136, 137, 167, 168, 169, 255, 256, 1000]
DST_LENS = [0, 1, 16, 43, 254, 255]


def plan(tier, seed):
    shards, no = [], 0
    q = tier == "quick"
    for x in XS:
        shards.append(dict(no=no, x=x, part="lengths", idx=0)); no += 1
        shards.append(dict(no=no, x=x, part="grid", idx=0)); no += 1
        for i in range(1 if q else 8):
            shards.append(dict(no=no, x=x, part="sweep", idx=i)); no += 1
        shards.append(dict(no=no, x=x, part="h2f", idx=0)); no += 1
        for i in range(3 if q else 200):
            shards.append(dict(no=no, x=x, part="random", idx=i)); no += 1
    for i in range(4 if q else 200):
        shards.append(dict(no=no, x="-", part="okm", idx=i)); no += 1
    return shards


def rb(rng, n):
    return bytes(rng.getrandbits(8) for _ in range(n))


def run_shard(shard, tier, seed, wd, res):
    x, part = shard["x"], shard["part"]
    rng = G.rng_for(seed, ID, x, part, shard["idx"])
    s = H.Script()
    q = tier == "quick"
    b = XMD_B.get(x)
    if part == "lengths":
        msg, dst = b"abc", b"QUUX-V01-CS02-with-expander"
        if b:
            lens = sorted(set([0, 1, b - 1, b, b + 1, 2 * b - 1, 2 * b, 2 * b + 1, 3 * b, 48, 64, 96, 128, 192, 256, 254 * b, 254 * b + 1,
                               255 * b - 1, 255 * b, 255 * b + 1, 255 * b + 2, 256 * b, 300 * b, 65535 if 65535 <= 255 * b else 255 * b + 7]
                              + [rng.randrange(0, 255 * b) for _ in range(20 if q else 200)]))
            # requests far beyond the limit (every one must abort): just above 2^16 / 2^32 where a narrowed copy of the
            # length would look small again, and at the top of the usize range where rounding up to blocks wraps
            far = [65536, 65537, 65536 + b, 65536 + 100, 65536 + 255 * b, 2 * 65536 + 100, 3 * 65536 + b, 1 << 20, (1 << 24) + 5,
                   1 << 32, (1 << 32) + 1, (1 << 32) + b, (1 << 32) + 255 * b, (1 << 48) + 1, 1 << 63, (1 << 63) + b]
            far += [(1 << 64) - d for d in (1, 2, b - 1, b, b + 1, 2 * b, 255 * b, rng.randrange(1, b))]
            lens += [n - (1 << 64) if n >= (1 << 63) else n for n in far]
        else:
            lens = sorted(set([0, 1, 31, 32, 33, 64, 128, 135, 136, 137, 167, 168, 169, 255, 256, 257, 1000, 8160, 16320, 32767, 32768, 65534, 65535]
                              + [rng.randrange(0, 65536) for _ in range(20 if q else 200)]))
        for n in lens:
            s.op("expand", V.s(x), V.b(msg), V.b(dst), V.n(n))
            s.op("expand", V.s(x), V.b(rb(rng, rng.choice(MSG_LENS))), V.b(rb(rng, rng.choice(DST_LENS))), V.n(n))
    elif part == "sweep":
        # dense sweep of the message length (every value up to 1100 bytes, then around every power of two up to 2^15,
        # minus the tag length) with a fixed tag, and of the tag length (0..255) with two message lengths: a behaviour
        # that depends on ONE particular total size (a staging buffer that is exactly full, ...) shows here
        dst = rb(rng, rng.choice([0, 1, 16, 50]))
        lens_m = set(range(0, 1101))
        for e in range(11, 16):
            for d in range(-6, 4):
                lens_m.add(max(0, (1 << e) - len(dst) + d))
        for ml in sorted(lens_m):
            s.op("expand", V.s(x), V.b(rb(rng, ml)), V.b(dst), V.n(rng.choice([32, 64, 33])))
        for dl in range(0, 256):
            # message lengths that bring message + tag to within 8 bytes below 512, 1024, 2048, 4096
            for ml in (rng.randrange(0, 40), (512, 1024, 2048, 4096)[dl % 4] - dl - (dl // 4) % 9):
                s.op("expand", V.s(x), V.b(rb(rng, max(0, ml))), V.b(rb(rng, dl)), V.n(32))
    elif part == "grid":
        for ml in MSG_LENS + ([10240] if True else []):
            for dl in DST_LENS:
                s.op("expand", V.s(x), V.b(rb(rng, ml)), V.b(rb(rng, dl)), V.n(rng.choice([32, 48, 64, 96, 128, 256])))
        # identical (msg, tag, length) under every expander, back to back on one thread: the result depends on the
        # expander as well (a memo keyed on the inputs alone would show here)
        for _ in range(6):
            m_, d_, cnt = rb(rng, rng.choice([0, 5, 64])), rb(rng, rng.choice([0, 8, 43])), rng.choice([1, 2])
            for x2 in XS:
                s.op("h2f", V.s(rng.choice(["fq", "fq2"]) if _ % 2 else "fq"), V.s(x2), V.b(m_), V.b(d_), V.n(cnt))
            for x2 in XS:
                s.op("expand", V.s(x2), V.b(m_), V.b(d_), V.n(64))
        for ml in (0, 1, 64, 128):
            s.op("expand", V.s(x), V.b(bytes(ml)), V.b(bytes(16)), V.n(128))
            s.op("expand", V.s(x), V.b(b"\xff" * ml), V.b(b"\xff" * 255), V.n(128))
    elif part == "h2f":
        for f, L in (("fq", 64), ("fr", 48), ("fq2", 128)):
            mx = (255 * b) // L if b else 65535 // L
            counts = [0, 1, 2, 3, 5, mx - 1, mx, mx + 1] if b else [0, 1, 2, 3, 5, 17, mx]
            for cnt in counts:
                s.op("h2f", V.s(f), V.s(x), V.b(rb(rng, rng.choice(MSG_LENS))), V.b(rb(rng, rng.choice(DST_LENS))), V.n(cnt))
            for ml in MSG_LENS[:: 2 if q else 1]:
                s.op("h2f", V.s(f), V.s(x), V.b(rb(rng, ml)), V.b(rb(rng, rng.choice(DST_LENS))), V.n(rng.choice([1, 2])))
    elif part == "random":
        for _ in range(400 if q else 1500):
            n = rng.choice([32, 64, 96, 128, 192, 256]) if rng.random() < 0.6 else rng.randrange(0, (255 * b + 1) if b else 4000)
            s.op("expand", V.s(x), V.b(rb(rng, rng.randrange(0, 300))), V.b(rb(rng, rng.randrange(0, 256))), V.n(n))
            s.op("h2f", V.s(rng.choice(["fq", "fr", "fq2"])), V.s(x), V.b(rb(rng, rng.randrange(0, 200))), V.b(rb(rng, rng.randrange(0, 256))), V.n(rng.randrange(0, 6)))
    else:  # okm
        for f, L, m in (("fq", 64, Q), ("fr", 48, R)):
            top = 1 << (8 * L)
            half = 1 << (8 * L // 2)          # the reduction splits the block at 2^256 resp. 2^192
            vals = [0, 1, top - 1, top - 2, half - 1, half, half + 1, m - 1, m, m + 1, half * (m - 1), half * m % top, (top // m) * m, (top // m) * m - 1,
                    (top // m) * m + 1 if (top // m) * m + 1 < top else 0]
            for k in [2, 3, 1 << 64, 1 << 127, (top // m) // 2, rng.randrange(1, top // m)]:
                for d in (-1, 0, 1):
                    vals.append(k * m + d)
            for sh in (64, 128, 192, 255, 256, 257, 320, 383, 384, 385, 448):
                if sh < 8 * L:
                    vals += [1 << sh, (1 << sh) - 1]
            vals += [rng.getrandbits(8 * L) for _ in range(150 if q else 1500)]
            vals += [(rng.getrandbits(8 * L // 2) << (8 * L // 2)) for _ in range(10)] + [rng.getrandbits(8 * L // 2) for _ in range(10)]
            for v in vals:
                v %= top
                s.op("from_okm", V.s(f), V.b(v.to_bytes(L, "big")))
                if rng.random() < 0.3:
                    s.op("from_ro", V.s(f), V.b(v.to_bytes(L, "big")))
        for _ in range(100 if q else 1000):
            c0 = rng.choice([0, (1 << 512) - 1, Q, rng.getrandbits(512)])
            c1 = rng.choice([0, (1 << 512) - 1, Q - 1, rng.getrandbits(512)])
            s.op("from_ro", V.s("fq2"), V.b(c0.to_bytes(64, "big") + c1.to_bytes(64, "big")))
    H.monitor_script(__import__("props.c13", fromlist=["x"]), s.text(), BUILDS, wd, res, shard)


def lclass(n, b):
    n %= 1 << 64
    if b and n >= (1 << 64) - b:
        return "ell wraps"
    if b and n > 65535:
        return "len>=2^%d" % (16 if n < (1 << 32) else 32 if n < (1 << 63) else 63)
    if b:
        ell = -(-n // b)
        return "ell=%d%s" % (ell if ell in (0, 1, 2, 254, 255, 256) else -1, "" if n % b == 0 else "+part")
    return "len<=%d" % (next(t for t in (0, 1, 136, 168, 1000, 32768, 65535, 1 << 30) if n <= t))


def judge(ctx, rec, res):
    v = spec.judge(ctx, rec, res)
    A = rec.args
    if rec.op == "expand":
        x = A[0][1]
        b = XMD_B.get(x)
        ml = len(A[1][1])
        key = (rec.op, x, lclass(A[3][1], b), "msg%d" % (ml if ml in MSG_LENS else -1), "dst%d" % (len(A[2][1]) if len(A[2][1]) in DST_LENS else -1), rec.status, ctx.build)
    elif rec.op == "h2f":
        key = (rec.op, A[0][1], A[1][1], "count=%d" % min(A[4][1], 6) if A[4][1] < 6 else "count=big", rec.status, ctx.build)
    else:
        f = A[0][1]
        v_ = int.from_bytes(A[1][1], "big")
        m = R if f == "fr" else Q
        L = len(A[1][1]) * 8
        cl = "0" if v_ == 0 else "ones" if v_ == (1 << L) - 1 else "k*m+-1" if (v_ % m in (0, 1, m - 1)) else "2^i+-" if (v_ & (v_ - 1) == 0 or (v_ + 1) & v_ == 0) else "lowhalf" if v_ < (1 << (L // 2)) else "gen"
        key = (rec.op, f, cl, rec.status, ctx.build)
    res.classes[key] += 1
    if rec.status == "panic":
        res.info["aborts observed (all expected by the model)" if v is None else "unexpected aborts"] += 1
    if len(res.samples) < 5 and rec.op == "expand" and rec.status == "ok" and 0 < A[3][1] <= 32:
        res.samples.append(dict(build=ctx.build, op=rec.line[:300], observed=V.fmt(rec.outs[0])))
    return v
