"""C06 — hash_to_curve / encode_to_curve implement the RFC 9380 BLS12-381 suites."""
from lib import harness as H, spec, vals as V, gen as G
from model.params import Q, R

ID = "C06"
BUILDS = ("rel", "chk")
RULE = ("HashToCurve::{hash_to_curve, encode_to_curve} for G1 and G2 with XMD(SHA-256), XMD(SHA-512), XOF(SHAKE128), "
        "XOF(SHAKE256): message lengths 0, 1 and +-1 around every block / rate boundary (55/56, 63/64/65, 111/112, "
        "127/128/129, 135/136/137, 167/168/169; 60/61/62, 124/125/126, 133/134, 165/166 where message plus length octets fill a block), 10 kB; tags of length 0, 1, 16, 43, 254, 255; random content; each "
        "call repeated once to observe dependence on (msg, tag) only. Oracle: the model's end-to-end RFC 9380 pipeline "
        "(hashlib -> hash_to_field -> simplified SWU -> isogeny -> addition on the target curve -> h_eff), compared as "
        "affine points, and the model subgroup predicate on a sample of results. RFC appendix J vectors are part of the "
        "model self-test. A case is (op, group, expander, message-length class, tag-length class, build)")
ASSUMPTIONS = ["RFC 9380 pipeline as transcribed in model/rfc9380.py, anchored by appendix J/K known answers and the isogeny polynomial identity"]
MIN_EVALS = {"quick": 800, "thorough": 20000}

XS = ["sha256", "sha512", "shake128", "shake256"]
MSG_LENS = [0, 1, 55, 56, 57, 63, 64, 65, 111, 112, 127, 128, 129, 135, 136, 137, 167, 168, 169]
# boundaries of the strings that are actually hashed: the message followed by the 3 (XMD: l_i_b_str, 0) or 2 (XOF) length
# octets reaches a block / rate boundary at 61 (SHA-256), 125 (SHA-512), 134 (SHAKE256), 166 (SHAKE128); +-1 around each
MSG_LENS += [60, 61, 62, 124, 125, 126, 133, 134, 165, 166]
DST_LENS = [0, 1, 16, 43, 254, 255]


def plan(tier, seed):
    shards, no = [], 0
    q = tier == "quick"
    for g in (1, 2):
        for x in XS:
            for i in range((3 if g == 1 else 4) if q else (24 if g == 1 else 60)):
                shards.append(dict(no=no, g=g, x=x, idx=i)); no += 1
    return shards


def rb(rng, n):
    return bytes(rng.getrandbits(8) for _ in range(n))


def run_shard(shard, tier, seed, wd, res):
    g, x = shard["g"], shard["x"]
    rng = G.rng_for(seed, ID, g, x, shard["idx"])
    s = H.Script()
    gp = "g%d" % g
    q = tier == "quick"
    cases = []
    if shard["idx"] == 0:
        for ml in MSG_LENS:
            cases.append((rb(rng, ml), rb(rng, rng.choice(DST_LENS))))
        for dl in DST_LENS:
            cases.append((rb(rng, rng.choice([0, 32, 100])), rb(rng, dl)))
        cases.append((b"", b"QUUX-V01-CS02-with-BLS12381G%d_XMD:SHA-256_SSWU_RO_" % g))
        cases.append((b"abc", b"QUUX-V01-CS02-with-BLS12381G%d_XMD:SHA-256_SSWU_NU_" % g))
        cases.append((rb(rng, 10240), b"verif"))
        if g == 2 and q:
            cases = cases[::2]
    else:
        for _ in range(25 if g == 1 else 12):
            cases.append((rb(rng, rng.choice(MSG_LENS + [rng.randrange(0, 400)])), rb(rng, rng.choice(DST_LENS + [rng.randrange(0, 256)]))))
    if shard["idx"] == 0:
        # the same (msg, tag) under every expander back to back: the result depends on the suite as well
        for x2 in XS:
            s.op(gp + ".hash", V.s(x2), V.b(b"one message"), V.b(b"one tag"))
        for x2 in XS:
            s.op(gp + ".encode", V.s(x2), V.b(b"one message"), V.b(b"one tag"))
    for msg, dst in cases:
        for op in ("hash", "encode"):
            a = s.op("%s.%s" % (gp, op), V.s(x), V.b(msg), V.b(dst))
            if rng.random() < 0.25:
                b = s.op("%s.%s" % (gp, op), V.s(x), V.b(msg), V.b(dst))   # repetition
                s.op(gp + ".eq", a, b)
    H.monitor_script(__import__("props.c06", fromlist=["x"]), s.text(), BUILDS, wd, res, shard)


def judge(ctx, rec, res):
    v = spec.judge(ctx, rec, res)
    name = rec.op.split(".")[1]
    if name == "eq":
        res.evals += 1
        if v is None and rec.status == "ok" and rec.outs[0][1] is not True:
            return "identical results for identical (msg, tag)"
        return v
    g = 1 if rec.op.startswith("g1") else 2
    ml, dl = len(rec.args[1][1]), len(rec.args[2][1])
    res.classes[(rec.op, rec.args[0][1], "msg%d" % (ml if ml in MSG_LENS else -1), "dst%d" % (dl if dl in DST_LENS else -1), ctx.build)] += 1
    if v is None and rec.status == "ok" and rec.id % 6 == 0:
        res.evals += 1
        if not spec.in_sub(g, spec.pt(rec.outs[0])[1]):
            return "a point of the order-r subgroup"
        res.info["results tested for subgroup membership"] += 1
    if len(res.samples) < 4 and rec.status == "ok" and ml <= 3:
        res.samples.append(dict(build=ctx.build, op=rec.line[:300], observed=V.fmt(rec.outs[0])[:330]))
    return v
