"""C12 — final exponentiation is f -> f^(3(q^12-1)/r) on every non-zero f."""
from lib import harness as H, spec, vals as V, gen as G
from model.params import Q, R, FINAL_EXP
from model import fields as F
from model.curves import E1, E2, g1_gen, g2_gen

ID = "C12"
BUILDS = ("rel", "chk")
RULE = ("Engine::final_exponentiation(f) for f given by its 12 coefficients: 0 (must report failure), 1, -1, elements "
        "of Fq, Fq2, Fq6 and of other proper subfields embedded in Fq12 (expected exactly 1), w, v, u, sparse elements, "
        "Miller-loop outputs, seeded random elements and products. Oracle: the literal power f^(3(q^12-1)/r) computed by "
        "square-and-multiply in the flat model on a sample (every structured element and a share of the random ones), "
        "and on ALL events: None <=> f = 0, result^r = 1, multiplicativity fe(f1*f2) = fe(f1)*fe(f2) (product f1*f2 "
        "formed by the model, compared through the library's own Fq12 multiplication) and fe(c*f) = fe(f) for c in a "
        "proper subfield. A case is (structural class of f, oracle kind, outcome, build)")
ASSUMPTIONS = ["flat-model exponentiation over CPython integers", "exponent 3(q^12-1)/r as stated in the property (confirmed by the RELIC literal in the self-test)"]
MIN_EVALS = {"quick": 300, "thorough": 20000}


def plan(tier, seed):
    q = tier == "quick"
    return [dict(no=i, idx=i) for i in range(32 if q else 800)]


def r12(rng):
    return F.f12_from_coeffs([rng.randrange(Q) for _ in range(12)])


def subfield_element(d, rng):
    """a random element of the subfield of order q^d of Fq12 (d | 12): the trace of a random element down to it"""
    x = r12(rng)
    acc = F.F12_ZERO
    for i in range(12 // d):
        acc = F.f12_add(acc, F.f12_frobenius(x, d * i))
    assert F.f12_frobenius(acc, d) == acc
    return acc


def structured(rng):
    z = [0] * 12
    out = [("zero", F.F12_ZERO), ("one", F.F12_ONE), ("-1", F.f12_from_coeffs([Q - 1] + [0] * 11))]
    out.append(("Fq", F.f12_from_coeffs([rng.randrange(1, Q)] + [0] * 11)))
    out.append(("Fq2", F.f12_from_coeffs([rng.randrange(Q), rng.randrange(1, Q)] + [0] * 10)))
    out.append(("Fq6", F.f12_from_coeffs([rng.randrange(Q) for _ in range(6)] + [0] * 6)))
    # Fq4 = Fq2(w^3): elements a + b*w^3 ; w^3 = v*w -> coefficient slot c1.c1
    c = [0] * 12
    c[0], c[1], c[8], c[9] = rng.randrange(Q), rng.randrange(Q), rng.randrange(Q), rng.randrange(1, Q)
    out.append(("Fq4", F.f12_from_coeffs(c)))
    for name, pos in (("u", 1), ("v", 2), ("w", 6), ("vw", 8), ("v2w", 10)):
        c = [0] * 12
        c[pos] = 1
        out.append((name, F.f12_from_coeffs(c)))
    c = [0] * 12
    c[6] = rng.randrange(1, Q)
    out.append(("c*w", F.f12_from_coeffs(c)))
    # every proper subfield through its trace form (Fq3 and Fq4 are not coefficient patterns of the tower)
    for d in (1, 2, 3, 4, 6):
        out.append(("Fq%d:trace" % d if d > 1 else "Fq:trace", subfield_element(d, rng)))
    out.append(("sparse014", F.f12_from_coeffs([rng.randrange(Q), rng.randrange(Q), rng.randrange(Q), rng.randrange(Q), 0, 0, 0, 0, rng.randrange(Q), rng.randrange(Q), 0, 0])))
    return out


def run_shard(shard, tier, seed, wd, res):
    rng = G.rng_for(seed, ID, shard["idx"])
    s = H.Script()
    T = lambda f: ("q12", f)
    if shard["idx"] % 8 == 0:
        for name, f in structured(rng):
            s.op("final_exp", T(f))
        # Miller-loop outputs
        p = s.op("prepare1", V.aff(1, E1.mul(rng.randrange(1, R), g1_gen())))
        q_ = s.op("prepare2", V.aff(2, E2.mul(rng.randrange(1, R), g2_gen())))
        m = s.op("miller", V.lst([p, q_]))
        s.op("final_exp", m)
        s.op("final_exp", s.op("fq12.mul", m, m))
        # unitary elements (norm one over Fq6): pairing values and conj(x)/x
        e_ = s.op("final_exp", m)
        s.op("final_exp", e_)
        s.op("final_exp", s.op("fq12.mul", e_, e_))
        x_ = T(r12(rng))
        u_ = s.op("fq12.mul", s.op("fq12.conj", x_), s.op("fq12.inv", x_))
        s.op("final_exp", u_)
        # proper-subfield multiples of unitary elements and of pairing values (the norm lies in a subfield, not = 1)
        for d in (1, 2, 3, 4, 6):
            sub = T(subfield_element(d, rng))
            s.op("final_exp", s.op("fq12.mul", u_, sub))
            s.op("final_exp", s.op("fq12.mul", e_, sub))
            s.op("fq12.inv", s.op("fq12.mul", u_, sub))
            s.op("fq12.inv", sub)
    n = 10 if tier == "quick" else 14
    for _ in range(n):
        f1, f2 = r12(rng), r12(rng)
        a = s.op("final_exp", T(f1))
        b = s.op("final_exp", T(f2))
        c = s.op("final_exp", T(F.f12_mul(f1, f2)))
        s.op("fq12.eq", s.op("fq12.mul", a, b), c)
        # scaling by a proper-subfield element does not change the result
        sub = rng.choice([x for x in structured(rng) if x[0].startswith("Fq")])[1]
        d = s.op("final_exp", T(F.f12_mul(f1, sub)))
        s.op("fq12.eq", a, d)
    H.monitor_script(__import__("props.c12", fromlist=["x"]), s.text(), BUILDS, wd, res, shard)


def fclass(f):
    for d in (1, 2, 3, 4, 6):
        if not F.f12_is_zero(f) and F.f12_frobenius(f, d) == f:
            return {1: "Fq", 2: "Fq2", 3: "Fq3", 4: "Fq4", 6: "Fq6"}[d]
    c = F.f12_coeffs(f)
    nz = [i for i, x in enumerate(c) if x]
    if not nz:
        return "zero"
    if nz == [0]:
        return "Fq"
    if set(nz) <= {0, 1}:
        return "Fq2"
    if set(nz) <= set(range(6)):
        return "Fq6"
    if set(nz) <= {0, 1, 8, 9}:
        return "Fq4"
    if len(nz) <= 6:
        return "sparse"
    return "dense"


def judge(ctx, rec, res):
    if rec.op == "fq12.eq":
        v = spec.judge(ctx, rec, res)
        if v is not None:
            return v
        res.evals += 1
        res.info["multiplicativity / subfield-scaling relations"] += 1
        if rec.status != "ok" or rec.outs[0][1] is not True:
            return "fe(f1)*fe(f2) == fe(f1*f2) resp. fe(c*f) == fe(f)"
        return None
    if rec.op != "final_exp":
        return spec.judge(ctx, rec, res) if rec.op.startswith("fq12.") else None
    f = rec.args[0][1]
    res.evals += 1
    if F.f12_is_zero(f):
        res.classes[("zero", "none-iff-zero", rec.status, ctx.build)] += 1
        return None if rec.status == "none" else "failure (None) for f = 0"
    if rec.status != "ok":
        return "a value for non-zero f (observed %s)" % rec.status
    e = rec.outs[0][1]
    cl = fclass(f)
    src = rec.srcs[0]
    if isinstance(src, int):
        cl = "lib:" + ctx.recs[src].op
    res.evals += 1
    if F.f12_pow(e, R) != F.F12_ONE:
        return "an r-th root of unity"
    kind = "relations"
    if cl in ("Fq", "Fq2", "Fq3", "Fq6", "Fq4"):
        res.evals += 1
        kind = "subfield->1"
        if e != F.F12_ONE:
            return "1 for a non-zero element of a proper subfield"
    if cl != "dense" or rec.id % 4 == 0:
        res.evals += 1
        kind = "literal power"
        res.info["literal powers f^(3(q^12-1)/r)"] += 1
        exp = F.f12_pow(f, FINAL_EXP)
        if e != exp:
            return "f^(3(q^12-1)/r) = " + V.fmt(("q12", exp))[:300]
    res.classes[(cl, kind, rec.status, ctx.build)] += 1
    if len(res.samples) < 4 and cl not in ("dense",):
        res.samples.append(dict(build=ctx.build, cls=cl, op=rec.line[:160] + "...", observed=V.fmt(rec.outs[0])[:100] + "..."))
    return None
