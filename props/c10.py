"""C10 — multi-scalar multiplication returns sum [k_i]P_i for every shape of input."""
from lib import harness as H, spec, vals as V, gen as G
from model.params import Q, R
from model.curves import E1, E2, g1_gen, g2_gen

ID = "C10"
BUILDS = ("rel", "chk")
RULE = ("sum_of_products_pippinger for EVERY window 1..=20 x both groups x n in {0,1,2,3,5,17,64} on scalar families "
        "built for digit extraction (a single bit at every position 0..254, adjacent bit pairs at every offset incl. those "
        "straddling 64-bit words, 2^255-1, 0, 1, r-1, random) and point multisets with duplicates, mutually inverse points "
        "and identities; the default entry point with mismatched list lengths in both directions and at n = b-1, b, b+1 for "
        "every boundary b of the window-selection table (explicit lists up to 240 points, arithmetic-progression macro-op "
        "beyond: P_i = [a0+i*d]G with identities / duplicates / inverses spliced in, expected value [sum k_i e_i]G, sampled "
        "operands re-derived by the monitor); the table-driven variant with library-built tables; find_pippinger_window on "
        "all boundaries. Expected values are sums of independent model scalar multiplications. A case is (op, group, "
        "window, n, scalar-family mix, point-multiset features, outcome, build) re-derived from the logged operands")
RULE += (" " + "Also: the full 5x5 grid of (#points, #scalars) on every entry point; the caller's table layout varied (exact chunks, rest-of-buffer slices filled last table first, rebuilt in place, own-point filler).")
ASSUMPTIONS = ["model: affine double-and-add, one independent multiplication per term", "scalars at or above 2^255 are outside the documented domain and are not judged"]
EXHAUSTIVE = ["Pippenger window sizes 1..=20 for G1 and G2", "window-selection boundaries b-1, b, b+1 (all 16 in thorough, up to 6492 in quick)",
              "single-bit scalars 2^i for every i in 0..=254"]
MIN_EVALS = {"quick": 600, "thorough": 6000}

BOUNDS = [1, 2, 20, 43, 105, 239, 578, 1258, 3464, 6492, 17146, 33676, 60319, 218189, 303280, 543651]


def plan(tier, seed):
    shards, no = [], 0
    q = tier == "quick"
    for g in (1, 2):
        for fam in ("bits0", "bits1", "bits2", "bits3", "pairs0", "pairs1", "mixed", "multiset"):
            for rep in range(1 if q else 3):
                shards.append(dict(no=no, g=g, part="windows", fam=fam, rep=rep, ws=list(range(1, 13)))); no += 1
            for ws in ([13, 14, 15, 16], [17], [18], [19], [20]):
                shards.append(dict(no=no, g=g, part="windows", fam=fam, rep=0, ws=ws)); no += 1
        shards.append(dict(no=no, g=g, part="shapes")); no += 1
        shards.append(dict(no=no, g=g, part="pow2")); no += 1
        for b in BOUNDS[2:6]:
            shards.append(dict(no=no, g=g, part="bound_explicit", b=b)); no += 1
        big = [b for b in BOUNDS[6:] if q and b <= 6492 or not q]
        for b in big:
            shards.append(dict(no=no, g=g, part="bound_prog", b=b)); no += 1
        shards.append(dict(no=no, g=g, part="prog_windows", ws=list(range(1, 13)))); no += 1
        shards.append(dict(no=no, g=g, part="prog_windows", ws=[13, 14] if q else [13, 14, 15, 16])); no += 1
        if not q:
            for w in (17, 18, 19, 20):
                shards.append(dict(no=no, g=g, part="prog_windows", ws=[w])); no += 1
        shards.append(dict(no=no, g=g, part="pre256")); no += 1
        shards.append(dict(no=no, g=g, part="pipwin")); no += 1
    shards.sort(key=lambda s: -(s.get("b", 0) + 100000 * max(s.get("ws", [0])) * (s["g"] + 1) * (max(s.get("ws", [0])) > 16)))
    for i, s in enumerate(shards):
        s["no"] = i
    return shards


def points64(g, seed):
    rng = G.rng_for(seed, ID, "points", g)
    c = E1 if g == 1 else E2
    gen = g1_gen() if g == 1 else g2_gen()
    pts = []
    for i in range(64):
        a = rng.randrange(1, R)
        pts.append(c.mul(a, gen))
    return pts


def scalars(fam, rng):
    if fam.startswith("bits"):
        o = int(fam[4:]) * 64
        return [(1 << (o + j)) if o + j < 255 else ((1 << 254) | (1 << (j))) for j in range(64)]
    if fam.startswith("pairs"):
        o = int(fam[5:])
        out = []
        for j in range(64):
            i = (4 * j + o * 2 + (61 if j % 3 == 0 else 0)) % 254
            out.append((3 << i) & ((1 << 255) - 1) or 1)
        # make sure every word boundary is straddled
        for n_, i in enumerate((63, 127, 191, 62, 126, 190, 31, 95)):
            out[n_] = (0b101 << (i - 1)) if n_ % 2 else (3 << i)
        return out
    if fam == "mixed":
        base = [(1 << 255) - 1, 0, 1, R - 1, R, R + 1, (1 << 254), (1 << 255) - 2, ((1 << 64) - 1) << 64, ((1 << 64) - 1) << 191 & ((1 << 255) - 1)]
        return base + [rng.getrandbits(255) for _ in range(64 - len(base))]
    return [rng.getrandbits(255) if rng.random() < 0.8 else rng.getrandbits(rng.randrange(1, 255)) for _ in range(64)]


def run_shard(shard, tier, seed, wd, res):
    g, part = shard["g"], shard["part"]
    rng = G.rng_for(seed, ID, g, part, shard.get("fam"), shard.get("rep"), shard.get("b"))
    s = H.Script()
    gp = "g%d" % g
    c = E1 if g == 1 else E2
    gen = g1_gen() if g == 1 else g2_gen()
    q = tier == "quick"
    timeout = 900
    if part == "windows":
        pts = points64(g, seed)
        if shard["fam"] == "multiset":
            # duplicates, inverses, identities
            for i in range(0, 64, 4):
                pts[i + 1] = pts[i]
                pts[i + 2] = c.neg(pts[i])
            for i in (3, 19, 35, 63):
                pts[i] = None
        fam = shard["fam"]
        ks = scalars(fam, rng)
        if shard["rep"]:
            rng.shuffle(ks)
        sc = H.Script()   # reduced script for the overflow-checked build when windows are large
        big = max(shard["ws"]) > 12
        for w in shard["ws"]:
            if w <= 12:
                ns = (0, 1, 2, 3, 5, 17, 64)
            elif fam in ("mixed", "multiset"):
                ns = (3, 5) if q else (3, 17)
            else:
                ns = (1, 64) if q else (1, 3, 17, 64)
            for n in ns:
                off = rng.randrange(0, 64 - n + 1) if n < 64 else 0
                kk = ks[off:off + n]
                if w > 12 and fam in ("mixed", "multiset") and (q or w > 16):
                    # short scalars: few non-empty window iterations (the cost of a call is ~2^w additions per non-empty iteration)
                    kk = [k & ((1 << (w + 8)) - 1) for k in kk]
                P = V.lst([V.aff(g, p) for p in pts[off:off + n]])
                K = V.lst([V.RR(k) for k in kk])
                s.op(gp + ".msm_pip", P, K, V.n(w))
                if w <= 12 and w == shard["ws"][0]:
                    s.op(gp + ".msm", P, K)
            if big:
                # every shift amount of the digit extraction depends on (w, position) only, never on the scalar values:
                # tiny digits exercise all of them cheaply under overflow checks
                tiny = [1, 1 << 254, (1 << 254) | 1, sum(1 << i for i in range(0, 255, w))]
                sc.op(gp + ".msm_pip", V.lst([V.aff(g, p) for p in pts[:4]]), V.lst([V.RR(k) for k in tiny]), V.n(w))
        if big:
            H.monitor_script(__import__("props.c10", fromlist=["x"]), s.text(), ("rel",), wd, res, shard, timeout=3000)
            H.monitor_script(__import__("props.c10", fromlist=["x"]), sc.text(), ("chk",), wd, res, shard, timeout=3000)
            return
    elif part == "shapes":
        pts = points64(g, seed)
        ks = scalars("mixed", rng)
        A = lambda lo, hi: V.lst([V.aff(g, p) for p in pts[lo:hi]])
        K = lambda lo, hi: V.lst([V.RR(k) for k in ks[lo:hi]])
        grid = [(a_, b_) for a_ in range(5) for b_ in range(5)]
        for (pl, kl) in grid + [(0, 5), (5, 0), (3, 7), (7, 3), (19, 20), (20, 19), (21, 64), (64, 21), (43, 42), (42, 44)]:
            s.op(gp + ".msm", A(0, pl), K(0, kl))
            s.op(gp + ".msm_pre256", A(0, pl), K(0, kl))
            # the caller's table layout: rest-of-buffer slices filled last table first, rebuilt in place, own-point filler
            s.op(gp + ".msm_pre256", A(0, pl), K(0, kl), V.n(1 + (pl + kl) % 3))
            for w in (1, 2, 5, 9, 12):
                s.op(gp + ".msm_pip", A(0, pl), K(0, kl), V.n(w))
        # relations BETWEEN list entries, with matched and mismatched lengths: all scalars equal, all scalars 1, all
        # points equal, scalars of the form small + j*2^(64 i)
        kk_ = rng.getrandbits(254) | 1
        odd = [V.RR(v) for v in (1 + (5 << 192), 1 + (1 << 64), 2 + (7 << 128), (1 << 192) | 1, 1, 1 + ((1 << 62) << 192))]
        for (pl, kl) in ((2, 2), (3, 3), (5, 3), (3, 5), (7, 2), (2, 7), (24, 21), (21, 24)):
            for kl_ in (V.lst([V.RR(kk_)] * kl), V.lst([V.RR(1)] * kl), V.lst([odd[i % len(odd)] for i in range(kl)])):
                s.op(gp + ".msm", A(0, pl), kl_)
                s.op(gp + ".msm_pip", A(0, pl), kl_, V.n(rng.choice([2, 3, 5, 7])))
                s.op(gp + ".msm_pre256", A(0, pl), kl_, V.n(rng.randrange(4)))
            same = V.lst([V.aff(g, pts[3])] * pl)
            s.op(gp + ".msm", same, K(0, kl))
            s.op(gp + ".msm_pip", same, K(0, kl), V.n(4))
        # special entries (identity, a repeated point, a pair of inverse points) at every position x every table layout
        O_ = V.aff(g, None)
        cc = E1 if g == 1 else E2
        for n_ in (2, 3, 4):
            for pos in range(n_):
                for special in ("O", "dup", "neg"):
                    lst = [V.aff(g, p) for p in pts[10:10 + n_]]
                    lst[pos] = O_ if special == "O" else V.aff(g, pts[10 + (pos + 1) % n_]) if special == "dup" else V.aff(g, cc.neg(pts[10 + (pos + 1) % n_]))
                    kk = K(pos, pos + n_)
                    for style in range(4):
                        s.op(gp + ".msm_pre256", V.lst(lst), kk, V.n(style))
                    s.op(gp + ".msm", V.lst(lst), kk)
        # all-identity points, all-zero scalars
        s.op(gp + ".msm", V.lst([V.aff(g, None)] * 9), K(0, 9))
        s.op(gp + ".msm", A(0, 9), V.lst([V.RR(0)] * 9))
        for w in range(1, 21):
            # identity points / zero scalars: no bucket is ever filled, so every window is cheap
            s.op(gp + ".msm_pip", V.lst([V.aff(g, None)] * 3), K(0, 3), V.n(w))
            s.op(gp + ".msm_pip", A(0, 3), V.lst([V.RR(0)] * 3), V.n(w))
    elif part == "bound_explicit":
        b = shard["b"]
        base = points64(g, seed)
        # cheap large multisets: the 64 base points repeated with varying scalars (the model caches [k]P per pair)
        small = [rng.getrandbits(255) for _ in range(6)] + [1, 2, (1 << 255) - 1, 1 << 254]
        for n in (b - 1, b, b + 1):
            pts = [base[i % 64] for i in range(n)]
            ks = [small[(i * 7 + i // 64) % len(small)] for i in range(n)]
            s.op(gp + ".msm", V.lst([V.aff(g, p) for p in pts]), V.lst([V.RR(k) for k in ks]))
    elif part == "pow2":
        # list lengths at and around powers of two (block sizes, capacities) on every entry point
        base = points64(g, seed)
        small = [rng.getrandbits(255) for _ in range(5)] + [1, (1 << 255) - 1, 1 << 254]
        for n in ((127, 128, 129, 255, 256, 257, 1023, 1024, 1025) if q else (63, 64, 65, 127, 128, 129, 255, 256, 257, 511, 512, 513, 1023, 1024, 1025, 2047, 2048, 2049, 4095, 4096, 4097)):
            off = rng.randrange(64)
            pts = V.lst([V.aff(g, base[(i + off) % 64]) for i in range(n)])
            ks = V.lst([V.RR(small[(i * 5 + i // 64) % len(small)]) for i in range(n)])
            s.op(gp + ".msm", pts, ks)
            s.op(gp + ".msm_pip", pts, ks, V.n(rng.choice([3, 4, 5, 8])))
            if n <= 600:
                s.op(gp + ".msm_pre256", pts, ks, V.n(rng.randrange(4)))
    elif part == "bound_prog":
        b = shard["b"]
        timeout = 3000
        for n in (b - 1, b, b + 1):
            a0, d = rng.randrange(1, R), rng.randrange(1, R)
            s.op(gp + ".msm_prog", V.aff(g, c.mul(a0, gen)), V.aff(g, c.mul(d, gen)), V.n(n), V.w(rng.getrandbits(64)), V.n(0), V.n(6), V.RR(a0), V.RR(d))
    elif part == "prog_windows":
        for w in shard["ws"]:
            n = rng.choice([150, 333, 700]) if w < 14 else rng.choice([900, 1500])
            a0, d = rng.randrange(1, R), rng.randrange(1, R)
            s.op(gp + ".msm_prog", V.aff(g, c.mul(a0, gen)), V.aff(g, c.mul(d, gen)), V.n(n), V.w(rng.getrandbits(64)), V.n(w), V.n(5), V.RR(a0), V.RR(d))
    elif part == "pre256":
        pts = points64(g, seed)
        # more points than any plausible block size of the table-driven variant (points repeat, scalars do not)
        for nbig in ((65, 130) if q else (65, 130, 257, 600)):
            kk = [rng.getrandbits(255) if i_ % 7 else (1 << (i_ % 255)) for i_ in range(nbig)]
            s.op(gp + ".msm_pre256", V.lst([V.aff(g, pts[(i_ * 5 + i_ // 64) % 64]) for i_ in range(nbig)]), V.lst([V.RR(k) for k in kk]))
        for i in range(0, 16, 4):
            pts[i + 1] = pts[i]
            pts[i + 2] = c.neg(pts[i])
        pts[7] = None
        for fam in ("bits0", "bits1", "bits2", "bits3", "pairs0", "mixed", "rand"):
            ks = scalars(fam, rng)
            for n in (0, 1, 2, 3, 5, 17):
                off = rng.randrange(0, 64 - n)
                s.op(gp + ".msm_pre256", V.lst([V.aff(g, p) for p in pts[off:off + n]]), V.lst([V.RR(k) for k in ks[off:off + n]]))
                if n >= 2:
                    # a table that covers more points than are passed, with more scalars than points
                    m = rng.randrange(1, n)
                    s.op(gp + ".msm_pre256x", V.lst([V.aff(g, p) for p in pts[off:off + n]]), V.lst([V.aff(g, p) for p in pts[off:off + m]]),
                         V.lst([V.RR(k) for k in ks[off:off + rng.choice([m, n, n])]]))
    else:
        for b in BOUNDS:
            for d in (-1, 0, 1):
                s.op(gp + ".pip_window", V.n(max(0, b + d)))
        for v in (0, 10 ** 6, 10 ** 9, (1 << 32) - 1, 1 << 32, (1 << 62), (1 << 63) - 1, -(1 << 63), -2, -1) + tuple(rng.getrandbits(rng.randrange(1, 30)) for _ in range(60)):
            s.op(gp + ".pip_window", V.n(v))
    builds = ("rel",) if part == "prog_windows" and max(shard["ws"]) > 12 else BUILDS
    H.monitor_script(__import__("props.c10", fromlist=["x"]), s.text(), builds, wd, res, shard, timeout=timeout)


def judge(ctx, rec, res):
    v = spec.judge(ctx, rec, res)
    name = rec.op.split(".")[1]
    g = 1 if rec.op.startswith("g1") else 2
    c = E1 if g == 1 else E2
    if name in ("msm", "msm_pip", "msm_pre256", "msm_pre256x"):
        off_ = 1 if name == "msm_pre256x" else 0
        pts = [spec.pt(p)[1] for p in rec.args[off_][1]]
        ks = [x[1] for x in rec.args[off_ + 1][1]]
        n = min(len(pts), len(ks))
        feats = []
        if name == "msm_pre256x":
            feats.append("table-longer-than-points")
        if len(pts) != len(ks):
            feats.append("len-mismatch:%s" % ("points-longer" if len(pts) > len(ks) else "scalars-longer"))
        sp = pts[:n]
        if any(p is None for p in sp):
            feats.append("identity-point")
        nn = [p for p in sp if p is not None]
        if len(set(nn)) < len(nn):
            feats.append("duplicates")
        if any(c.neg(p) in set(nn) for p in nn):
            feats.append("inverse-pair")
        kcl = sorted(set(G.kclass(k) for k in ks[:n]))
        w = rec.args[2][1] if name == "msm_pip" else 0
        nb = n if n <= 64 else "n~%d" % (n)
        res.classes[(rec.op, "w=%d" % w, nb, tuple(kcl), tuple(feats), rec.status, ctx.build)] += 1
        if name == "msm_pip":
            res.info["pippenger %s w=%d" % (rec.op[:2], w)] += 1
        for k in ks[:n]:
            if k and k & (k - 1) == 0:
                res.extra.setdefault("single_bits_" + rec.op[:2], {})[str(k.bit_length() - 1)] = 1
        if len(res.samples) < 5 and feats and n >= 3 and name == "msm_pip":
            res.samples.append(dict(build=ctx.build, op=rec.line[:600] + " ...", features=feats, n=n, window=w, status=rec.status))
    elif name == "msm_prog":
        res.classes[(rec.op, "w=%d" % rec.args[4][1], "n=%d" % rec.args[2][1], rec.status, ctx.build)] += 1
        res.info["msm_prog n=%d" % rec.args[2][1]] += 1
        if rec.args[4][1]:
            res.info["pippenger %s w=%d" % (rec.op[:2], rec.args[4][1])] += 1
        if ctx.cache.pop("msm_prog_operand_mismatch", None):
            res.inconclusive.append("msm_prog sampled operands differ from the model's (op %d)" % rec.id)
    elif name == "pip_window" and rec.status == "ok":
        res.classes[(rec.op, rec.outs[0][1], ctx.build)] += 1
    return v


def missing_classes(res, tier):
    return ["pippenger %s w=%d" % (g, w) for g in ("g1", "g2") for w in range(1, 21) if res.info.get("pippenger %s w=%d" % (g, w), 0) == 0]
