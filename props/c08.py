"""C08 — Fq and Fr are exactly the integers modulo q and r (and FqRepr/FrRepr are 384/256-bit integers)."""
from lib import harness as H, spec, vals as V, gen as G
from model.params import Q, R

ID = "C08"
BUILDS = ("rel", "chk")
RULE = ("class grid first (boundary set x boundary set for every binary op, boundary set for unary ops, shift "
        "amounts 0..=width+1, exponents of 0..12 limbs), then seeded random fill; a case is (op, field, class of each "
        "operand) with classes re-derived by the monitor from the logged integers (0, 1, -1, (m+-1)/2, Montgomery "
        "radix family, small, top, limb-boundary, generic); distinct_nontrivial counts distinct such keys that contain "
        "at least one non-generic operand class or a non-success outcome, per build")
RULE += (" " + 'from_repr / cmp are also driven on raw values whose limbs stand in every combination of (<,=,>) to the limbs of the modulus.')
ASSUMPTIONS = ["CPython integer arithmetic", "driver forwards operands 1:1 (from_repr/into_repr are the observation channel and are themselves under test here)"]
EXHAUSTIVE = ["shift amounts 0..=width+1 for shr/shl on both representation types", "boundary-set x boundary-set for add/sub/mul/cmp in both fields"]
MIN_EVALS = {"quick": 100000, "thorough": 2000000}

FIELDS = {"fq": (Q, 384, "q", "Q"), "fr": (R, 256, "r", "R")}
CHUNK = 40000


def plan(tier, seed):
    shards = []
    no = 0
    nrand = 16 if tier == "quick" else 1600
    for fam in ("fq", "fr"):
        for part in ("grid_bin", "grid_un", "pow", "repr", "repr_shift", "related"):
            shards.append(dict(no=no, fam=fam, part=part))
            no += 1
        for i in range(nrand // 2):
            shards.append(dict(no=no, fam=fam, part="random", idx=i))
            no += 1
    return shards


def run_shard(shard, tier, seed, wd, res):
    fam, part = shard["fam"], shard["part"]
    m, width, ty, rty = FIELDS[fam]
    rng = G.rng_for(seed, ID, fam, part, shard.get("idx", 0))
    s = H.Script()
    fe = lambda v: (ty, v)
    rp = lambda v: (rty, v)
    B = G.field_boundary(m, m.bit_length())
    if part == "grid_bin":
        for a in B:
            for b in B:
                for op in ("add", "sub", "mul"):
                    s.op("%s.%s" % (fam, op), fe(a), fe(b))
                s.op(fam + ".cmp", fe(a), fe(b))
                s.op(fam + ".eq", fe(a), fe(b))
                if a == b or (a + b) % 3 == 0:
                    s.op(fam + ".ne", fe(a), fe(b))
                s.op(fam + "." + ("lt", "gt", "le", "ge", "pcmp", "max", "min")[(a + b) % 7], fe(a), fe(b))
        # the same operations through the Field trait (generic code path), on a thinner grid
        B2 = B[::3]
        for a in B2:
            for b in B2:
                for op in ("add", "sub", "mul"):
                    s.op("T%s.%s" % (fam, op), fe(a), fe(b))
    elif part == "grid_un":
        vals = B + [rng.randrange(m) for _ in range(200)]
        for a in vals:
            for op in ("neg", "dbl", "sqr", "inv", "is_zero", "into_repr", "sqrt", "legendre"):
                s.op("%s.%s" % (fam, op), fe(a))
            for op in ("neg", "dbl", "sqr", "inv", "is_zero"):
                s.op("T%s.%s" % (fam, op), fe(a))
            s.op(fam + ".frob", fe(a), V.w(rng.choice([0, 1, 2, 7, (1 << 64) - 1])))
            if fam == "fq":
                s.op("fq.sgn0", fe(a))
                s.op("fq.negate_if", fe(a), V.n(0))
                s.op("fq.negate_if", fe(a), V.n(1))
        for op in ("zero", "one", "char", "mulgen", "root_of_unity", "consts"):
            s.op("%s.%s" % (fam, op))
        RB = G.repr_boundary(m, width)
        for v in RB + G.limb_compare_patterns(m, width, rng, 80) + [rng.getrandbits(width) for _ in range(300)] + [m + rng.getrandbits(rng.randrange(1, 60)) for _ in range(60)] \
                + [m - 1 - rng.getrandbits(rng.randrange(1, 60)) for _ in range(60)]:
            if 0 <= v < (1 << width):
                s.op(fam + ".from_repr", rp(v))
    elif part == "related":
        # binary operations on RELATED operands (the second one computed by the library): negative, inverse, square,
        # double, square root, Frobenius image (identity on a prime field); results that are 0 / 1 by construction fed on
        vals = B + [rng.randrange(m) for _ in range(100 if tier == "quick" else 2000)]
        for a in vals:
            ta = fe(a)
            rel = [s.op(fam + ".neg", ta), s.op(fam + ".sqr", ta), s.op(fam + ".dbl", ta), s.op(fam + ".frob", ta, V.w(1))]
            if a:
                rel.append(s.op(fam + ".inv", ta))
            if pow(a, (m - 1) // 2, m) == 1:
                rel.append(s.op(fam + ".sqrt", ta))
            for b in rel:
                for op in ("add", "sub", "mul", "eq", "ne", "cmp"):
                    s.op("%s.%s" % (fam, op), ta, b)
                s.op(fam + ".sub", b, ta)
            z = s.op(fam + ".add", ta, rel[0])
            s.op(fam + ".inv", z); s.op(fam + ".is_zero", z); s.op(fam + ".mul", z, ta); s.op(fam + ".sqrt", z); s.op(fam + ".into_repr", z)
            if a:
                o = s.op(fam + ".mul", ta, rel[4])
                s.op(fam + ".inv", o); s.op(fam + ".mul", o, ta); s.op(fam + ".sqrt", o); s.op(fam + ".into_repr", o)
    elif part == "pow":
        bases = [0, 1, 2, m - 1, m - 2, (m - 1) // 2] + [rng.randrange(m) for _ in range(20)]
        exps = [[], [0], [1], [2], [0, 0, 0], [0, 1], [(1 << 64) - 1] * 12]
        for e in (m - 1, m - 2, (m - 1) // 2, m, m + 1):
            exps.append([(e >> (64 * i)) & ((1 << 64) - 1) for i in range((e.bit_length() + 63) // 64)])
        for nl in range(0, 13):
            exps.append([rng.getrandbits(64) for _ in range(nl)])
            exps.append([rng.getrandbits(64) for _ in range(nl)] + [0])
        n = 1 if tier == "quick" else 6
        for _ in range(n):
            for a in bases:
                for e in exps:
                    s.op(fam + ".pow", fe(a), V.w(*e))
            bases = [rng.randrange(m) for _ in range(26)]
            exps = [[rng.getrandbits(64) for _ in range(rng.randrange(0, 13))] for _ in range(len(exps))]
    elif part == "repr":
        RB = G.repr_boundary(m, width)
        top = (1 << width) - 1
        for a in RB:
            for op in ("div2", "mul2", "num_bits", "is_zero", "is_odd", "is_even", "write_be", "write_le"):
                s.op("%s.%s" % (rty, op), rp(a))
                s.op("T%s.%s" % (rty, op), rp(a))
            by = a.to_bytes(width // 8, "big")
            s.op(rty + ".read_be", V.b(by))
            s.op(rty + ".read_le", V.b(by))
            s.op(rty + ".read_be", V.b(by + b"\xff\x01"))
            for b in RB:
                s.op(rty + ".cmp", rp(a), rp(b))
                s.op(rty + "." + ("lt", "gt", "pcmp")[(a + b) % 3], rp(a), rp(b))
                if a + b <= top:
                    s.op(rty + ".add_nocarry", rp(a), rp(b))
                    s.op("T" + rty + ".add_nocarry", rp(a), rp(b))
                if a >= b:
                    s.op(rty + ".sub_noborrow", rp(a), rp(b))
                    s.op("T" + rty + ".sub_noborrow", rp(a), rp(b))
        for a in G.limb_compare_patterns(m, width, rng, 80):
            s.op(rty + ".cmp", rp(a), rp(m))
            s.op(rty + "." + ("lt", "gt", "pcmp")[a % 3], rp(a), rp(m))
            s.op(rty + ".cmp", rp(m), rp(a))
        for cut in (0, 1, 7, 8, width // 8 - 1):
            s.op(rty + ".read_be", V.b(bytes(range(cut))))
            s.op(rty + ".read_le", V.b(bytes(range(cut))))
        for v in (0, 1, (1 << 64) - 1, 1 << 63, rng.getrandbits(64)):
            s.op(rty + ".from_u64", V.w(v))
        for _ in range(2000 if tier == "quick" else 12000):
            a, b = rng.getrandbits(width), rng.getrandbits(width)
            if rng.random() < 0.3:
                b = a ^ (1 << rng.randrange(width))
            s.op(rty + ".cmp", rp(a), rp(b))
            if a + b <= top:
                s.op(rty + ".add_nocarry", rp(a), rp(b))
            else:
                s.op(rty + ".add_nocarry", rp(a >> 1), rp(b >> 1))
            hi, lo = max(a, b), min(a, b)
            s.op(rty + ".sub_noborrow", rp(hi), rp(lo))
            s.op(rty + ".num_bits", rp(a >> rng.randrange(width)))
    elif part == "repr_shift":
        RB = [v for v in G.repr_boundary(m, width) if v.bit_length() > 0]
        vals = RB[:: max(1, len(RB) // 12)] + [(1 << width) - 1, rng.getrandbits(width), rng.getrandbits(width)]
        for a in vals:
            for n in list(range(0, width + 2)) + [width + 63, 2 * width, 1 << 20]:
                s.op(rty + ".shr", rp(a), V.n(n))
                s.op(rty + ".shl", rp(a), V.n(n))
    else:  # random fill
        for _ in range(CHUNK // 12):
            a, b = rng.randrange(m), rng.randrange(m)
            if rng.random() < 0.25:
                a = rng.choice(B)
            if rng.random() < 0.15:
                b = (m - a) % m if rng.random() < 0.5 else a
            for op in ("add", "sub", "mul", "cmp"):
                s.op("%s.%s" % (fam, op), fe(a), fe(b))
            for op in ("neg", "dbl", "sqr", "inv", "into_repr"):
                s.op("%s.%s" % (fam, op), fe(a))
            v = rng.getrandbits(width) if rng.random() < 0.5 else m + rng.randrange(-3, 4)
            s.op(fam + ".from_repr", rp(v))
            s.op(rty + ".shr", rp(v), V.n(rng.randrange(width + 2)))
            s.op(rty + ".shl", rp(v), V.n(rng.randrange(width + 2)))
    H.monitor_script(__import__("props.c08", fromlist=["x"]), s.text(), BUILDS, wd, res, shard)


def judge(ctx, rec, res):
    v = spec.judge(ctx, rec, res)
    fam = rec.op.split(".")[0]
    m = Q if fam in ("fq", "Q") else R
    cls = []
    for a in rec.args:
        if a[0] in ("q", "r", "Q", "R"):
            cls.append(G.fclass(a[1], m) if a[1] < m else ("=m" if a[1] == m else ">m"))
        elif a[0] == "n":
            cls.append("n%d" % min(a[1], 400) if rec.op.endswith((".shr", ".shl")) else "n")
        elif a[0] == "w":
            cls.append("w%d" % len(a[1]))
        elif a[0] == "b":
            cls.append("b%d" % len(a[1]))
    key = (rec.op, tuple(cls), rec.status, ctx.build)
    if any(c != "gen" for c in cls) or rec.status != "ok":
        res.classes[key] += 1
    if len(res.samples) < 4 and rec.status in ("ok", "none", "err") and any(c not in ("gen",) for c in cls):
        res.samples.append(dict(build=ctx.build, op=rec.line[:300], observed=rec.status + " " + " ".join(V.fmt(o) for o in rec.outs)[:200]))
    return v
