#!/bin/bash
# Re-evaluates every kept seeded change in /verif/seeded against the CURRENT checks (quick tier, scratch worktrees).
# usage: eval_all_seeded.sh [parallelism]   -> /tmp/mw-final.log ; then tools/collect_seeded.py refreshes INDEX.md
PAR=${1:-3}
cd /verif
declare -A CHK=(
 [C01A]="C01" [C01B]="C01" [C02A]="C02" [C02B]="C02" [C03A]="C03 C02" [C03B]="C11 C03" [C04A]="C04 C19" [C04B]="C04"
 [C05A]="C05" [C05B]="C05 C04" [C06A]="C06 C13" [C06B]="C06 C13" [C07A]="C07" [C07B]="C07 C19" [C08A]="C08" [C08B]="C08"
 [C09A]="C09" [C09B]="C09" [C10A]="C10" [C10B]="C10 C02" [C11A]="C11" [C11B]="C11" [C12A]="C12" [C12B]="C12 C09"
 [C13A]="C13" [C13B]="C13" [C14A]="C14 C15" [C14B]="C14 C01" [C15A]="C15 C14" [C15B]="C15 C18" [C16A]="C16" [C16B]="C16 C14"
 [C17A]="C17" [C17B]="C17" [C18A]="C18" [C18B]="C18" [C19A]="C19" [C19B]="C19" [S00]="C14"
)
: > /tmp/mw-final.log
n=0
for d in seeded/*/; do
  name=$(basename $d)
  [ -f $d/patch.diff ] || continue
  [[ "$name" == C20* ]] && continue
  checks=${CHK[$name]:-${name:0:3}}
  ( tools/eval_mut.sh $d/patch.diff $name $checks >> /tmp/mw-final.log 2>&1 ) &
  n=$((n+1)); if (( n % PAR == 0 )); then wait; fi
done
wait
# C20 legs share the Miri target directory: strictly one at a time
for name in C20A C20B; do
  [ -f seeded/$name/patch.diff ] && tools/eval_mut.sh seeded/$name/patch.diff $name C20 >> /tmp/mw-final.log 2>&1
done
grep -E "exit=" /tmp/mw-final.log | sort
