#!/bin/bash
# Re-evaluates every kept seeded change in /verif/seeded against the CURRENT checks (quick tier, scratch worktrees).
# The checks to run for a change are read from its meta.json (property_broken + every check listed under detection).
# usage: eval_all_seeded.sh [parallelism]   -> /tmp/mw-final.log ; then tools/collect_seeded.py refreshes INDEX.md
PAR=${1:-3}
cd /verif
: > /tmp/mw-final.log
n=0
C20LIST=""
for d in seeded/*/; do
  name=$(basename $d)
  [ -f $d/patch.diff ] || continue
  [[ "$name" == BENIGN* ]] && continue
  checks=$(jq -r '[.property_broken] + ((.detection // {}) | keys) | unique | join(" ")' $d/meta.json)
  if echo " $checks " | grep -q " C20 "; then C20LIST="$C20LIST $name"; checks=$(echo $checks | sed 's/C20//'); fi
  [ -z "$(echo $checks | tr -d ' ')" ] && continue
  ( tools/eval_mut.sh $d/patch.diff $name $checks >> /tmp/mw-final.log 2>&1 ) &
  n=$((n+1)); if (( n % PAR == 0 )); then wait; fi
done
wait
# C20 legs share the Miri target directory: strictly one at a time
for name in $C20LIST; do
  tools/eval_mut.sh seeded/$name/patch.diff $name C20 >> /tmp/mw-final.log 2>&1
done
grep -E "exit=" /tmp/mw-final.log | sort
