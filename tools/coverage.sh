#!/bin/bash
# Measures which lines of /repo/src the quick workloads reach (a tool for finding holes in the workloads; not a check).
# usage: coverage.sh [ids...]     output: /verif/.build/coverage/report.txt  (+ per-file line listing of unreached regions)
set -uo pipefail
cd /verif
IDS=${@:-C01 C02 C03 C04 C05 C06 C07 C08 C09 C10 C11 C12 C13 C14 C15 C16 C17 C18 C19}
COV=/verif/.build/coverage
BIN=$HOME/.rustup/toolchains/nightly-x86_64-unknown-linux-gnu/lib/rustlib/x86_64-unknown-linux-gnu/bin
rm -rf $COV; mkdir -p $COV/scripts $COV/prof
REPO=$(readlink -f ${VERIF_REPO:-/repo})
TAG=$(echo -n "$REPO" | md5sum | cut -c1-8)
tools/build_driver.sh rel >/dev/null
( cd .build/crate-$TAG && CARGO_TARGET_DIR=/verif/.build/target-cov RUSTFLAGS="-Cinstrument-coverage" cargo +nightly build --offline --release -q ) || exit 3
DRV=/verif/.build/target-cov/release/ppdrv
for id in $IDS; do
  VERIF_KEEP_SCRIPTS=$COV/scripts VERIF_EVIDENCE_DIR=$COV/ev VERIF_REPLAY_DIR=$COV/rp ./check $id --tier quick >/dev/null 2>&1
done
ls $COV/scripts | wc -l
i=0
for s in $COV/scripts/*.txt; do
  i=$((i+1))
  ( LLVM_PROFILE_FILE=$COV/prof/p$i.profraw timeout 900 $DRV $s $COV/out.$i.log >/dev/null 2>&1; rm -f $COV/out.$i.log ) &
  if (( i % 16 == 0 )); then wait; fi
done
wait
$BIN/llvm-profdata merge -sparse $COV/prof/*.profraw -o $COV/all.profdata
$BIN/llvm-cov report $DRV -instr-profile=$COV/all.profdata $(find $REPO/src -name '*.rs' | grep -v tests) > $COV/report.txt 2>/dev/null
$BIN/llvm-cov show $DRV -instr-profile=$COV/all.profdata -show-line-counts-or-regions $(find $REPO/src -name '*.rs' | grep -v tests) > $COV/show.txt 2>/dev/null
cat $COV/report.txt | cut -c1-200
