#!/usr/bin/env python3
"""Search (once, offline) for subgroup points whose encodings have boundary byte patterns in a coordinate: the leading
16 bits of a 48-byte coordinate equal to those of the modulus (0x1a01, about 1 point in 95000) or zero (1 in 6657).
Such points cannot be constructed (the x-coordinate of a subgroup point cannot be prescribed), only found; the result is
frozen in lib/data/prefix_points.json as multiples k of the generator. Nothing is trusted from the file: generators and
monitors recompute [k]g in the reference model and re-derive the class from the coordinates."""
import json, sys, os
sys.path.insert(0, os.path.join(os.path.dirname(os.path.abspath(__file__)), ".."))
from model.params import Q
from model.curves import g1_gen, g2_gen

def fq2mul(a, b):
    t0 = a[0] * b[0]; t1 = a[1] * b[1]
    return ((t0 - t1) % Q, ((a[0] + a[1]) * (b[0] + b[1]) - t0 - t1) % Q)
def fq2sqr(a):
    return ((a[0] + a[1]) * (a[0] - a[1]) % Q, 2 * a[0] * a[1] % Q)
def fq2inv(a):
    n = pow(a[0] * a[0] + a[1] * a[1], Q - 2, Q)
    return (a[0] * n % Q, -a[1] * n % Q)
OPS = {
    1: dict(mul=lambda a, b: a * b % Q, sqr=lambda a: a * a % Q, sub=lambda a, b: (a - b) % Q, add=lambda a, b: (a + b) % Q,
            inv=lambda a: pow(a, Q - 2, Q), one=1, comps=lambda a: [a]),
    2: dict(mul=fq2mul, sqr=fq2sqr, sub=lambda a, b: ((a[0] - b[0]) % Q, (a[1] - b[1]) % Q), add=lambda a, b: ((a[0] + b[0]) % Q, (a[1] + b[1]) % Q),
            inv=fq2inv, one=(1, 0), comps=lambda a: [a[1], a[0]]),
}

HALF_TOP = ((Q - 1) // 2) >> 368          # 0x0d00: leading 16 bits of the sort-flag threshold (q-1)/2

def search(g, want, cap, classes=("hi", "lo")):
    o = OPS[g]; mul, sqr, sub, add = o["mul"], o["sqr"], o["sub"], o["add"]
    G = g1_gen() if g == 1 else g2_gen()
    gx, gy = G
    # start from 2G in Jacobian
    from model.curves import E1, E2
    c = E1 if g == 1 else E2
    P2 = c.add(G, G)
    X, Y, Z = P2[0], P2[1], o["one"]
    names = ["x", "y"] if g == 1 else ["x.c1", "x.c0", "y.c1", "y.c0"]
    found = {n + ":" + t: [] for n in names for t in classes if t != "half" or n.startswith("y")}
    k = 2
    BLK = 2000
    while k < cap and any(len(v) < want for v in found.values()):
        blk = []
        for _ in range(BLK):
            blk.append((k, X, Y, Z))
            # mixed addition (X,Y,Z) + (gx,gy)   [madd-2007-bl, never equal operands here]
            z2 = sqr(Z); u2 = mul(gx, z2); s2 = mul(gy, mul(Z, z2))
            h = sub(u2, X); hh = sqr(h); i = add(add(hh, hh), add(hh, hh)); j = mul(h, i)
            r = sub(s2, Y); r = add(r, r); v = mul(X, i)
            X3 = sub(sub(sqr(r), j), add(v, v))
            yj = mul(Y, j)
            Y3 = sub(mul(r, sub(v, X3)), add(yj, yj))
            Z3 = sub(sub(sqr(add(Z, h)), z2), hh)
            X, Y, Z = X3, Y3, Z3
            k += 1
        # batch inversion of the Z's
        pref = [o["one"]]
        for (_, _, _, z) in blk:
            pref.append(mul(pref[-1], z))
        inv = o["inv"](pref[-1])
        for idx in range(len(blk) - 1, -1, -1):
            kk, x, y, z = blk[idx]
            zi = mul(inv, pref[idx]); inv = mul(inv, z)
            zi2 = sqr(zi)
            ax = mul(x, zi2); ay = mul(y, mul(zi2, zi))
            comps = o["comps"](ax) + o["comps"](ay)
            for n, cval in zip(names, comps):
                top = cval >> 368
                if top == 0x1a01 and "hi" in classes and len(found[n + ":hi"]) < want:
                    found[n + ":hi"].append(kk)
                elif top == 0 and "lo" in classes and len(found[n + ":lo"]) < want:
                    found[n + ":lo"].append(kk)
                elif top == HALF_TOP and (n + ":half") in found and len(found[n + ":half"]) < want:
                    found[n + ":half"].append(kk)
        print(g, k, {a: len(b) for a, b in found.items()}, file=sys.stderr)
    return found

if __name__ == "__main__":
    p = os.path.join(os.path.dirname(os.path.abspath(__file__)), "..", "lib", "data", "prefix_points.json")
    if sys.argv[1:] == ["--half"]:
        # added later: y-coordinates that agree with (q-1)/2 on their leading 16 bits (1 point in 6657), where the sort
        # flag of the compressed encoding is decided by the lower bits only; merged into the existing file
        out = json.load(open(p))
        out["1"].update(search(1, 4, 400000, classes=("half",)))
        out["2"].update(search(2, 3, 400000, classes=("half",)))
        json.dump(out, open(p, "w"), indent=1, sort_keys=True)
        print("merged", p)
        sys.exit(0)
    out = {"1": search(1, 3, 1200000), "2": search(2, 2, 1200000)}
    json.dump(out, open(p, "w"), indent=1, sort_keys=True)
    print("written", p)
