#!/bin/bash
# usage: build_driver.sh <variant: rel|chk|asan|tsan|miri-setup> [repo path]
# Generates the driver crate for the given repo path under /verif/.build and builds it.
# Prints the path of the binary on the last line.
set -euo pipefail
VARIANT=${1:-rel}
REPO=${2:-${VERIF_REPO:-/repo}}
REPO=$(readlink -f "$REPO")
ROOT=/verif/.build
TAG=$(echo -n "$REPO" | md5sum | cut -c1-8)
CRATE=$ROOT/crate-$TAG
mkdir -p "$CRATE"
export CARGO_NET_OFFLINE=true
(
  flock 9
  sed "s#@REPO@#$REPO#" /verif/driver/Cargo.toml.in > "$CRATE/Cargo.toml.new"
  if ! cmp -s "$CRATE/Cargo.toml.new" "$CRATE/Cargo.toml" 2>/dev/null; then mv "$CRATE/Cargo.toml.new" "$CRATE/Cargo.toml"; else rm "$CRATE/Cargo.toml.new"; fi
  [ -f "$CRATE/Cargo.lock" ] || cp "$REPO/Cargo.lock" "$CRATE/Cargo.lock" 2>/dev/null || cp /repo/Cargo.lock "$CRATE/Cargo.lock"
  rm -rf "$CRATE/src"; ln -sfn /verif/driver/src "$CRATE/src"
) 9>"$ROOT/.lock-crate-$TAG"
cd "$CRATE"
TGT=$ROOT/target-$VARIANT
BIN=$ROOT/bin-$TAG
mkdir -p "$BIN"
case "$VARIANT" in
  rel) OUT=$TGT/release/ppdrv ;;
  chk) OUT=$TGT/chk/ppdrv ;;
  asan|tsan) OUT=$TGT/x86_64-unknown-linux-gnu/release/ppdrv ;;
  *) echo "unknown variant $VARIANT" >&2; exit 2 ;;
esac
(
  flock 9
  case "$VARIANT" in
    rel)  CARGO_TARGET_DIR=$TGT cargo build --offline --release -q 2>"$ROOT/build-$VARIANT-$TAG.log" ;;
    chk)  CARGO_TARGET_DIR=$TGT cargo build --offline --profile chk -q 2>"$ROOT/build-$VARIANT-$TAG.log" ;;
    asan) CARGO_TARGET_DIR=$TGT RUSTFLAGS="-Zsanitizer=address -Cforce-frame-pointers=yes" cargo +nightly build --offline --release --target x86_64-unknown-linux-gnu -q 2>"$ROOT/build-$VARIANT-$TAG.log" ;;
    tsan) CARGO_TARGET_DIR=$TGT RUSTFLAGS="-Zsanitizer=thread" cargo +nightly build --offline --release -Zbuild-std --target x86_64-unknown-linux-gnu -q 2>"$ROOT/build-$VARIANT-$TAG.log" ;;
  esac || exit 3
  # the target directory is shared between trees under test (different VERIF_REPO paths): keep a private copy of the
  # binary per tree, taken under the same lock as the build, so that concurrent checks can never run each other's binary
  cp -f "$OUT" "$BIN/ppdrv-$VARIANT.tmp.$$" && mv -f "$BIN/ppdrv-$VARIANT.tmp.$$" "$BIN/ppdrv-$VARIANT"
) 9>"$ROOT/.lock-target-$VARIANT" || { echo "BUILD FAILED ($VARIANT):" >&2; tail -30 "$ROOT/build-$VARIANT-$TAG.log" >&2; exit 3; }
echo "$BIN/ppdrv-$VARIANT"
