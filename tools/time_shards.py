#!/usr/bin/env python3
"""usage: time_shards.py <prop> <tier> [filter-substring]   — wall time of each shard (parallel pool), slowest first"""
import sys, os, time, importlib, multiprocessing
sys.path.insert(0, '/verif'); os.chdir('/verif')
from lib import harness as H
def one(a):
    modname, sh, tier = a
    t = time.time()
    r = H._shard_entry((modname, sh, tier, 1))
    return time.time() - t, sh, r.evals, len(r.violations), r.inconclusive[:1]
if __name__ == '__main__':
    modname, tier = sys.argv[1], sys.argv[2]
    mod = importlib.import_module('props.' + modname)
    for b in getattr(mod, 'BUILDS', ('rel', 'chk')):
        H.build(b)
    shards = mod.plan(tier, 1)
    if len(sys.argv) > 3:
        shards = [s for s in shards if sys.argv[3] in str(s)]
    with multiprocessing.Pool(16) as p:
        out = p.map(one, [(modname, s, tier) for s in shards], chunksize=1)
    for t, sh, ev, nv, inc in sorted(out, key=lambda x: -x[0])[:25]:
        print('%7.1fs evals=%d viol=%d %s %s' % (t, ev, nv, sh, inc))
