#!/usr/bin/env python3
"""Shows that the model self-test is not vacuous: every single perturbation of a model constant below makes it fail.
Run: python3 tools/selftest_mutation.py     (prints one line per perturbation; exit 1 if a perturbation survives)"""
import sys, importlib
sys.path.insert(0, '/verif')

def fresh():
    for m in [k for k in sys.modules if k == 'model' or k.startswith('model.')]:
        del sys.modules[m]
    import model.selftest as st
    return st

def attempt(name, mutate):
    st = fresh()
    try:
        mutate(st)
        st.run(full=False)
    except (AssertionError, ZeroDivisionError, ValueError, TypeError, IndexError) as e:
        print("killed   %-46s %s" % (name, str(e)[:70]))
        return True
    print("SURVIVED %s" % name)
    return False

def m_iso(table, idx):
    def f(st):
        import model.iso_tables as T
        import model.rfc9380 as H
        t = list(getattr(T, table)); v = t[idx]
        t[idx] = (v + 1) if isinstance(v, int) else ((v[0] + 1), v[1])
        setattr(T, table, t)
        H.ISO_TABLES[1] = (H.ISO_TABLES[1][0], T.G1_XNUM, T.G1_XDEN, T.G1_YNUM, T.G1_YDEN)
        H.ISO_TABLES[2] = (H.ISO_TABLES[2][0], T.G2_XNUM, T.G2_XDEN, T.G2_YNUM, T.G2_YDEN)
    return f

def m_attr(modname, attr, fn):
    def f(st):
        m = importlib.import_module(modname)
        setattr(m, attr, fn(getattr(m, attr)))
    return f

def m_curve_b(st):
    import model.rfc9380 as H
    H.ISO1.b = (H.ISO1.b + 1)

def m_z(st):
    import model.rfc9380 as H
    H.Z1 = 13

def m_xi(st):
    import model.fields as F
    F.XI = (1, 2)

def m_neg_exp(st):
    import model.pairing as PA
    PA.NEG_EXP += 1

def m_heff(st):
    import model.rfc9380 as H
    H.HEFF1 = H.HEFF1 + 2

def m_lfq(st):
    import model.rfc9380 as H
    H.L_FQ = 48

def m_egg(st):
    st.E_G1_G2 = list(st.E_G1_G2); st.E_G1_G2[3] += 1

ok = True
for table in ("G1_XNUM", "G1_XDEN", "G1_YNUM", "G1_YDEN", "G2_XNUM", "G2_XDEN", "G2_YNUM", "G2_YDEN"):
    for idx in (0, 2):
        ok &= attempt("isogeny table %s[%d] + 1" % (table, idx), m_iso(table, idx))
ok &= attempt("B' of the G1 isogenous curve + 1", m_curve_b)
ok &= attempt("SSWU Z for G1 = 13", m_z)
ok &= attempt("non-residue xi = 1 + 2u", m_xi)
ok &= attempt("pairing exponent + 1", m_neg_exp)
ok &= attempt("h_eff(G1) + 2", m_heff)
ok &= attempt("hash_to_field L for Fq = 48", m_lfq)
ok &= attempt("RELIC e(g1,g2) literal coefficient + 1", m_egg)
sys.exit(0 if ok else 1)
