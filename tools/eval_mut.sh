#!/bin/bash
# usage: eval_mut.sh <patch.diff> <name> <check> [<check>...]
# Applies a seeded change to a scratch worktree of /repo HEAD, runs the given quick checks against it (VERIF_REPO),
# prints one line per check, removes the worktree. Evidence/replays of these runs go to /tmp, never to /verif.
set -u
PATCH=$(readlink -f "$1"); NAME=$2; shift 2
WT=/tmp/mw/$NAME
mkdir -p /tmp/mw /tmp/mw-out/$NAME
git -C /repo worktree remove --force $WT >/dev/null 2>&1
git -C /repo worktree add --detach $WT HEAD -q || exit 9
cp /repo/Cargo.lock $WT/
if ! git -C $WT apply "$PATCH"; then echo "$NAME: PATCH DOES NOT APPLY"; git -C /repo worktree remove --force $WT; exit 8; fi
for C in "$@"; do
  T0=$(date +%s)
  VERIF_REPO=$WT VERIF_EVIDENCE_DIR=/tmp/mw-out/$NAME/evidence VERIF_REPLAY_DIR=/tmp/mw-out/$NAME/replays /verif/check $C --tier ${TIER:-quick} > /tmp/mw-out/$NAME/$C.out 2>&1
  RC=$?
  T1=$(date +%s)
  echo "$NAME $C exit=$RC $((T1-T0))s $(grep -m1 -E 'VIOLATION|INCONCLUSIVE|^OK' /tmp/mw-out/$NAME/$C.out | cut -c1-150)"
  grep -m1 -A3 VIOLATION /tmp/mw-out/$NAME/$C.out | sed -n '2,4p' | cut -c1-220
done
git -C /repo worktree remove --force $WT
T=$(echo -n "$WT" | md5sum | cut -c1-8); rm -rf /verif/.build/crate-$T /verif/.build/bin-$T /verif/.build/build-*-$T.log
