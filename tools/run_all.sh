#!/bin/bash
# usage: run_all.sh <quick|thorough> [ids...]   — runs checks sequentially, prints one line each
TIER=${1:-quick}; shift
IDS=${@:-C01 C02 C03 C04 C05 C06 C07 C08 C09 C10 C11 C12 C13 C14 C15 C16 C17 C18 C19 C20}
cd "$(dirname "$0")/.."
for id in $IDS; do
  T0=$(date +%s)
  OUT=$(./check $id --tier $TIER 2>&1); RC=$?
  T1=$(date +%s)
  echo "$id rc=$RC $((T1-T0))s $(echo "$OUT" | grep -m1 -E '^OK|VIOLATION|INCONCLUSIVE' | cut -c1-300)"
  [ $RC -ne 0 ] && echo "$OUT" | head -20
done
