#!/usr/bin/env python3
"""One-off transcription of the large RFC 9380 constants from the pinned tree into
model/iso_tables.py (Montgomery limbs -> canonical integers). The result is frozen in
/verif and validated independently by model/selftest.py (polynomial isogeny identity,
RFC known answers); checks never read these constants from /repo's sources again
(C15/C16 read the *live* values through the verif hooks and compare)."""
import re, sys
sys.path.insert(0, '/verif')
from model.params import Q
RINV = pow(1 << 384, -1, Q)

def limbs_to_int(l):
    v = 0
    for i, x in enumerate(l):
        v |= x << (64 * i)
    return v * RINV % Q

def consts(path):
    s = open(path).read()
    out = {}
    for m in re.finditer(r'const (\w+): (?:\[(\w+); \d+\]|(\w+)) = ', s):
        name = m.group(1); ty = m.group(2) or m.group(3)
        # find matching end: next "\n];" or "\n}));" / "\n};"
        start = m.end()
        end = s.find('\n];', start) if m.group(2) else min(x for x in (s.find('\n]));', start), s.find('\n};', start)) if x >= 0)
        body = s[start:end]
        limbs = [int(h, 16) for h in re.findall(r'0x([0-9a-fA-F]+)u64', body)]
        vals = [limbs_to_int(limbs[i:i + 6]) for i in range(0, len(limbs), 6)]
        if ty == 'Fq2':
            vals = [(vals[i], vals[i + 1]) for i in range(0, len(vals), 2)]
        out[name] = vals
    return out

R = '/repo/src/bls12_381/'
i1 = consts(R + 'isogeny/g1.rs'); i2 = consts(R + 'isogeny/g2.rs')
o1 = consts(R + 'osswu_map/g1.rs'); o2 = consts(R + 'osswu_map/g2.rs')
with open('/verif/model/iso_tables.py', 'w') as f:
    f.write('"""Frozen transcription (tools/extract_tables.py) of the RFC 9380 appendix-E isogeny coefficients and\n'
            'the G1 isogenous-curve constants; index i = coefficient of x^i. Validated by model/selftest.py."""\n')
    for g, t in ((1, i1), (2, i2)):
        for n in ('XNUM', 'XDEN', 'YNUM', 'YDEN'):
            f.write('G%d_%s = %r\n' % (g, n, t[n]))
    f.write('G1_ELLP_A = %r\nG1_ELLP_B = %r\n' % (o1['ELLP_A'][0], o1['ELLP_B'][0]))
print({k: len(v) for k, v in i1.items()}, {k: len(v) for k, v in i2.items()})
print('G1 XI', o1['XI'], 'G2 A', o2['ELLP_A'], 'B', o2['ELLP_B'], 'XI', o2['XI'])
print(hex(o1['ELLP_A'][0])); print(hex(o1['ELLP_B'][0]))
