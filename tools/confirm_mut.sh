#!/bin/bash
# usage: [MUTBASE=/tmp/mut2] confirm_mut.sh <Cxx> <A|B> <slot> [name]
# Independently confirms a seeded change: applies it in a scratch worktree, (1) the demo fails with it, (2) the existing
# suite (129 stable tests, debug) passes with it, (3) the demo passes without it. Writes /tmp/mc/<name>.result
set -u
P=$1; V=$2; SLOT=${3:-0}
NAME=${4:-$P$V}
SRC=${MUTBASE:-/tmp/mut}/$P/_out/$V
WT=/tmp/mc/wt-$NAME
export CARGO_TARGET_DIR=/tmp/mc/target-$SLOT CARGO_NET_OFFLINE=true
mkdir -p /tmp/mc
git -C /repo worktree remove --force $WT >/dev/null 2>&1
git -C /repo worktree add --detach $WT HEAD -q || exit 9
cp /repo/Cargo.lock $WT/
cd $WT
R=/tmp/mc/$NAME.result
: > $R
DEMO=$(ls $SRC/demo.rs 2>/dev/null)
if [ -z "$DEMO" ]; then echo "no demo.rs" >> $R; fi
mkdir -p tests; [ -n "$DEMO" ] && cp $DEMO tests/demo.rs
# (3) clean tree: demo passes
if [ -n "$DEMO" ]; then
  if cargo test --offline --features verif --test demo > /tmp/mc/$NAME.demo_clean.log 2>&1; then echo "demo_clean=pass" >> $R; else echo "demo_clean=FAIL" >> $R; fi
fi
PATCH=$SRC/patch.diff; [ -f $SRC/patch.rebased.diff ] && PATCH=$SRC/patch.rebased.diff
git apply $PATCH || { echo "apply=FAIL" >> $R; exit 1; }
echo "apply=ok" >> $R
if cargo build --offline --features verif > /tmp/mc/$NAME.build.log 2>&1; then echo "build_verif=ok" >> $R; else echo "build_verif=FAIL" >> $R; fi
if [ -n "$DEMO" ]; then
  if cargo test --offline --features verif --test demo > /tmp/mc/$NAME.demo_mut.log 2>&1; then echo "demo_mut=PASS(unexpected)" >> $R; else echo "demo_mut=fail(expected)" >> $R; fi
fi
cargo test --offline --lib -- --skip bls12_engine_tests --skip g2_curve_tests --skip fq12_field_tests > /tmp/mc/$NAME.suite.log 2>&1
echo "suite=$(grep -E '^test result' /tmp/mc/$NAME.suite.log | head -1)" >> $R
cd /
git -C /repo worktree remove --force $WT
echo "done" >> $R
