#!/usr/bin/env python3
"""Assemble /verif/seeded/<id>/ from the campaign scratch areas (/tmp/mut, /tmp/mc, /tmp/mw-out) and write INDEX.md.
A change is kept only when the independent confirmation succeeded (demo passes clean, fails with the change, suite passes).
"""
import glob, json, os, re, shutil, sys

NEEDS = {
 "C01A": ("C01", "projective == gains a fast path for two 'normalised' operands that compares X,Y directly; is_normalized() is also true for Z = 0", "two identity values with different (X,Y), e.g. zero() against the result of P + (-P)"),
 "C01B": ("C01", "batch_normalization: the backward pass filters with !is_zero() instead of !is_normalized(), shifting the zip with the prefix products", "a slice holding an already-normalised non-identity entry after an entry with Z != 1"),
 "C02A": ("C02", "mul_precomp_3: first nibble uses (bits[3] >> 61) & 8, dropping bit 255 of the scalar", "a raw 256-bit scalar with bit 255 set on the 3-entry table path"),
 "C02B": ("C02", "wnaf_form returns early for the zero scalar before truncating the digit buffer", "reuse of a wNAF context / shared table: scalar 0 after a non-zero scalar"),
 "C03A": ("C03", "mul_assign skips the top (256 - NUM_BITS) bit of the scalar representation", "scalars in [2^255, 2^256) through projective mul_assign (values >= r in e([a]P,[b]Q))"),
 "C03B": ("C11", "miller_loop collects pairs with take_while instead of filter", "a list where a pair containing the identity precedes a non-trivial pair (pairing_product / multi_product / miller_loop)"),
 "C04A": ("C04", "G2Uncompressed: flag bits masked before the sort-flag check, making the check dead", "uncompressed G2 string of a finite point with the sort flag set"),
 "C04B": ("C04", "G1Compressed infinity branch: all-zero test replaced by an XOR fold", "compressed G1 infinity encoding with a non-zero payload whose bytes XOR to zero (at least two dirty bytes)"),
 "C05A": ("C05", "G2Compressed::from_affine computes the sort flag from y.c1 only", "an on-curve G2 point with y.c1 = 0 - exists only OUTSIDE the order-r subgroup, i.e. outside the property's domain"),
 "C05B": ("C05", "G1Uncompressed: flag bits masked before the sort-flag check", "uncompressed G1 string of a finite point with bit 0x20 set is accepted: a second preimage"),
 "C06A": ("C06", "expand_message_xmd gains oversize-tag hashing with guard dst.len() < 255", "a tag of exactly 255 bytes with a SHA-2 expander"),
 "C06B": ("C06", "expand_message_xmd: Z_pad hard-wired to 64 bytes", "any SHA-512 suite (block size 128)"),
 "C07A": ("C07", "G2Affine::in_subgroup drops the curve-equation conjunct", "an off-curve pair that is an order-r point of an isomorphic twist, e.g. (l^2 x, l^3 y) of a G2 point, or a G1 point read over Fq2"),
 "C07B": ("C07", "SerDes for G2 (uncompressed) calls into_affine_unchecked", "G2 projective, compressed = false, canonical coordinates of a point off the curve or outside the subgroup"),
 "C08A": ("C08", "inherent FqRepr::is_zero ORs limbs 0,1,2,3,4,4 (limb 5 never checked); the derived field code picks it up by method syntax", "an Fq element whose Montgomery form is k*2^320, e.g. (2^64)^-1: is_zero() true, inverse() None, negate() no-op"),
 "C08B": ("C08", "inherent FrRepr::add_nocarry with a carry chain that drops the carry when b + carry wraps", "right operand with an all-ones limb and a carry arriving from the limb below (in the Montgomery domain for Fr::add_assign)"),
 "C09A": ("C09", "Fq2::inverse gains a shortcut for a zero component; the c0 = 0 case drops the negation", "an Fq2 element with c0 = 0, c1 != 0 (e.g. u), also through Fq6/Fq12 inverses with purely imaginary norm"),
 "C09B": ("C09", "Fq12::frobenius_map indexes the coefficient table with power % 6", "Fq12 element with non-zero c1 and k mod 12 in 6..=11"),
 "C10A": ("C10", "Pippenger gains an all-scalars-zero early-out that ignores the top limb", "every scalar has its low 192 bits clear and one is non-zero (e.g. a single bit 2^192..2^254)"),
 "C10B": ("C10", "precomp_256 no longer writes pre[0]", "table built into a reused (dirty) buffer and a scalar with an all-zero interleaved bit column"),
 "C11A": ("C11", "miller_loop: break instead of continue on an identity pair", "an identity-containing pair followed by a non-trivial pair"),
 "C11B": ("C11", "pairing_multi_product processes blocks of 16 and never clears the prepared buffers", "more than 16 pairs"),
 "C12A": ("C12", "final_exponentiation returns Some(1) whenever c1 = 0", "f = 0 (must report failure)"),
 "C12B": ("C12", "Fq6::inverse fast path guarded by c1.is_zero() && c1.is_zero()", "f whose Fq6 norm has zero v-coefficient and non-zero v^2-coefficient, e.g. f = a + b v^2 w"),
 "C13A": ("C13", "XMD abort guard rounds down: len_in_bytes / b_in_bytes > 255", "requested length strictly between 255 and 256 hash blocks"),
 "C13B": ("C13", "Fq::from_okm skips the multiplication by 2^256 when 3 of the 4 upper limbs are zero", "a 64-byte block with bytes 8..32 zero and bytes 0..8 non-zero (e.g. 2^448)"),
 "C19A": ("C19", "G2 uncompressed deserialize reads the second half with read() instead of read_exact()", "G2 projective, compressed = false: short reads / Interrupted readers, truncated identity encodings"),
 "C19B": ("C19", "G1Affine compressed deserialize gains an identity fast path that ignores the low six bits of the flag byte", "compressed G1Affine stream [b0, 0, ...] with b0 in 0xc1..=0xff"),
 "C14A": ("C14", "G2 osswu_map, eta branch: sign of y follows u.c0.sgn0() instead of u.sgn0()", "G2 input with c0 = 0, odd c1 and non-square g(X0(u)), e.g. u = i"),
 "C14B": ("C14", "add_assign: equal-operand test compares raw coordinates (x, y, z) instead of cross-multiplied ones", "the same point through different Z, e.g. map2_to_curve(u, 1/(Z u)) whose SSWU images coincide with different Z"),
 "C15A": ("C15", "G2 osswu_map: both sign fixes use u.c0.sgn0()", "t in Fq2 with c0 = 0 and c1 odd"),
 "C15B": ("C15", "Fq2::sgn0 tests only the lowest limb of c0 for zero", "c0 a non-zero multiple of 2^64 and c1 odd"),
 "C16A": ("C16", "eval_iso skips all Z scaling when Z^2 == 1", "a Jacobian representative with Z = -1"),
 "C16B": ("C16", "eval_iso returns early (input unchanged) when the output Z is zero", "one of the ten rational kernel points of the G1 11-isogeny"),
 "C17A": ("C17", "G1 clear_h adds the input back with a mixed addition on a hand-built affine value when is_normalized()", "the identity as input (is_normalized() is true for Z = 0)"),
 "C17B": ("C17", "chain_z returns early for an identity input before writing its output", "G2 points with [3 h2]P = O (cofactor subgroup, small-order points): a stale table entry is used"),
 "C18A": ("C18", "Fq2::sqrt zero shortcut tests only c0", "purely imaginary inputs (c0 = 0, c1 != 0): returns Some(0)"),
 "C18B": ("C18", "Fq2::legendre fast path returns Zero whenever c0 = 0", "purely imaginary non-zero elements"),
 "C20A": ("C20", "Pippenger buckets kept in a thread_local scratch vector assumed to be all-zero after every call", "a call that panics on the scalar-range assert (caught by the caller) leaves a point behind: the next MSM on that thread is wrong"),
 "C20B": ("C20", "process-wide 'last prepared G2' cache with key and payload under separate locks", "two threads preparing G2 points concurrently, one of them the most recently prepared point"),
}

# round 2 (agents were told which ideas had been used already); sources under /tmp/mut2/<Cxx>/_out/<A|B>, ids <Cxx>C / <Cxx>D
NEEDS.update({
 "C01C": ("C01", "add_assign: equal-point test on raw (x,y,z) placed before the general formula", "the same non-identity point in two different Jacobian representations: the sum collapses to the identity"),
 "C01D": ("C01", "default sub_assign gains identity short-circuits; O - P returns P (negation forgotten)", "identity minuend (zero() or a computed identity) and a non-identity subtrahend"),
 "C02C": ("C02", "wnaf_form removes the signed digit with a low-limb-only wrapping subtraction (carry into limb 1 dropped for negative digits)", "scalars with a long run of one bits at positions window..63 of the shifted low limb, e.g. 2^64 - 1"),
 "C02D": ("C02", "mul_assign fast path uses add_assign_mixed with a hand-built affine copy when is_normalized()", "the projective identity as base with any non-zero scalar"),
 "C03C": ("C03", "add_assign doubling test: u1 == u2 && self.y == other.y", "projective mul_assign with scalars whose prefix makes the accumulator equal the base in another representation: r+2, 2r+4, 2r+5"),
 "C03D": ("C03", "G2Affine::perform_pairing returns Fq12::zero() when an operand is the identity", "pairing_with initiated from the G2 side with an identity operand"),
 "C04C": ("C04", "Fq2 PartialOrd::partial_cmp chained with or_else: the c0 tie-break never fires", "compressed G2 decoding of an x whose y lies in Fq (y.c1 = 0): the wrong root is selected (points outside the subgroup; visible through the unchecked decoder and through <, >)"),
 "C04D": ("C04", "G2Uncompressed masks the top three bits of byte 96 (y.c1) too", "uncompressed G2 string with y.c1 + k*2^381: accepted instead of a coordinate range error"),
 "C05C": ("C05", "affine negate loses its identity guard + G1Compressed::from_affine computes the sort flag for infinity", "the G1 identity as an affine value, negated, then compressed: e0 00..00"),
 "C05D": ("C05", "From<projective> for affine merges zero and Z = 1 into one is_normalized() fast path + G2Compressed writes x regardless of is_zero()", "a G2 identity with X != 0 (any cancelling sum) converted to affine and compressed"),
 "C07C": ("C07", "batch_normalization backward pass filters with !is_zero()", "a batch holding an already-normalised non-identity point after an un-normalised one: outputs leave the curve"),
 "C07D": ("C07", "map2_to_curve adds on the isogenous curve again, guarded only by u0 == u1", "distinct inputs whose SSWU images coincide"),
 "C10C": ("C10", "Pippenger: empty bucket is loaded with (x, y, 1) of the affine point instead of add_assign_mixed", "an identity point in the list that is the first to hit its bucket"),
 "C10D": ("C10", "sum_of_products_precomp_256 takes its count from pre.len() >> 8 instead of points.len()", "fewer points than scalars together with a table covering more points"),
 "C19C": ("C19", "G2Affine compressed deserialize calls into_affine_unchecked", "compressed G2Affine stream of an on-curve point outside the subgroup"),
 "C19D": ("C19", "Fq12 deserialize wraps the reader in a BufReader (read-ahead is lost)", "anything following the 576 bytes: more than 576 bytes are consumed"),
})
SRC_OVERRIDE = {n: "/tmp/mut2/%s/_out/%s" % (n[:3], "A" if n[3] == "C" else "B") for n in NEEDS if n[3] in "CD"}

NEEDS.update({
 "C06C": ("C14", "map2_to_curve: 'single isogeny' optimisation - adds on the isogenous curve unless u0 == u1", "distinct field elements with coinciding SSWU images (not reachable from a message: a C14 break, C06 cannot see it)"),
 "C06D": ("C14", "map2_to_curve returns the identity early when u0 == -u1", "u0 = u1 = 0 (0 is its own negative): the result must be 2*map(0)"),
 "C08C": ("C08", "inherent Fq::pow that skips all-zero exponent limbs together with their 64 squarings", "a multi-limb exponent with an all-zero limb below a non-zero limb, e.g. [0, 1]"),
 "C08D": ("C08", "inherent Fr::sub_assign reducing with > instead of >=", "subtracting equal non-zero operands: the result is r, a second representation of zero (prints 0, is_zero() false)"),
 "C09C": ("C09", "Fq6::mul_by_01 shortcut for c1 == 0 multiplies self.c2 by c1 instead of c0", "sparse operand with c1 = 0 and self.c2 != 0 (also mul_by_014 with c1 = 0 or c1 = -c4)"),
 "C09D": ("C09", "Fq6::inverse subfield shortcut guarded by c1.is_zero() && c1.is_zero()", "Fq6 element with c1 = 0, c2 != 0 (v^2 gets None)"),
 "C11C": ("C11", "pairing_product shortcut for an identity in the second pair returns pairing(p1, q2)", "second pair contains an identity, first pair non-trivial"),
 "C11D": ("C11", "pairing_multi_product skips G2 preparation for identity G1 elements but pairs by index", "a G1 identity at a non-final position of a list of at least two pairs"),
 "C12C": ("C12", "Fq6::mul_assign shortcut for a right operand in Fq2 drops the v^2 coefficient", "f with one Fq6 coefficient in Fq2 and not in a proper subfield, e.g. 1 + w"),
 "C12D": ("C12", "Fq12::inverse shortcut for c0 = 0 computes c1^-1 * v", "f = g*w (c0 = 0, c1 != 0), e.g. f = w"),
 "C13C": ("C13", "XMD oversize-tag hashing with guard dst.len() < 255", "a tag of exactly 255 bytes"),
 "C13D": ("C13", "Fr::from_okm final addition inlined with > instead of >= in the reduction", "a 48-byte block that is a non-zero exact multiple of r: a non-canonical zero (prints 0, != zero())"),
 "C14C": ("C14", "map2_to_curve returns the identity early when p1 == -p2", "u0 = u1 = 0"),
 "C14D": ("C14", "eval_iso returns early when the x-denominator vanishes", "inputs whose SSWU image is one of the rational kernel points of the G1 11-isogeny"),
 "C20C": ("C20", "mul_precomp_3 keeps its 16-entry table in a function-local static mut behind a try-lock that every caller releases", "three or more overlapping calls on the same curve from different threads"),
 "C20D": ("C20", "G1Compressed::into_affine keeps a thread-local memo of the last decoding, written before the subgroup check", "decoding the same on-curve, non-subgroup encoding twice on one thread: Err then Ok"),
})
SRC_OVERRIDE.update({n: "/tmp/mut2/%s/_out/%s" % (n[:3], "A" if n[3] == "C" else "B") for n in NEEDS if n[3] in "CD"})

NEEDS.update({
 "C04C": NEEDS["C04C"], "C04D": NEEDS["C04D"],
 "C16C": ("C16", "G2 isogeny_map gains an identity early-return that tests z.c0 twice", "a non-identity point of E'_2 in a representative whose Z is purely imaginary (c0 = 0, c1 != 0)"),
 "C16D": ("C16", "eval_iso skips the trailing Z^2 / Z^3 factors when is_normalized()", "an identity representative (X, Y, 0) with X != 0, e.g. the library's own P + (-P)"),
 "C17C": ("C17", "add_assign: hoisted raw-coordinate doubling test + 'u1 == u2 => zero'", "small-order points of the full curve (order 3, 11 on E; 13 on E'): a chain prefix meets the input in another representation"),
 "C17D": ("C17", "G2 clear_h gains an identity short-cut that tests z.c0 twice", "a non-identity G2 point in a representative with purely imaginary Z"),
 "C18C": ("C18", "Fq2 partial_cmp written out with the tie-break operands swapped (Ord::cmp unchanged)", "operands with equal u-coefficient: <, <=, >, >= give the reverse answer"),
 "C18D": ("C18", "Fq2::sgn0 tests only the lowest limb of c0 for zero", "c0 a non-zero multiple of 2^64 and c1 odd"),
})
SRC_OVERRIDE.update({n: "/tmp/mut2/%s/_out/%s" % (n[:3], "A" if n[3] == "C" else "B") for n in NEEDS if n[3] in "CD"})

# round 3: organised by source file (each agent got all twenty properties and one group of files); ids R3<files><A|B|C>
NEEDS.update({
 "C15C": ("C15", "G1 osswu_map skips the final projective scaling when gx0_den == 1 (the CUBE of the denominator)", "the four t for which the x-denominator is a primitive cube root of unity"),
 "C15D": ("C15", "Fq2::mul_assign shortcut when self.c0 == 1 (treats 1 + d*i as 1)", "left operands of the form 1 + d*i, reached in the G2 SWU for constructed t"),
 "R3serdesA": ("C19", "Fq12 deserialize wraps the reader in a BufReader", "anything following the 576 bytes in the stream"),
 "R3serdesB": ("C19", "G2 uncompressed deserialize uses read() for the second half", "short reads / truncated identity encodings"),
 "R3serdesC": ("C19", "G1Affine deserialize: one-directional flag check + branch chosen by the data's own flag", "a compressed encoding read with compressed = false"),
 "R3librsA": ("C11", "pairing_multi_product filters identities out of the G1 and G2 slices independently, then zips", "an identity in only one component of a non-final pair"),
 "R3librsB": ("C01", "default sub_assign gains an 'a - a' shortcut that compares against the already negated operand", "sub_assign with opposite operands (returns O instead of 2P); wNAF [r-2]P"),
 "R3librsC": ("C13", "XMD 255-block guard evaluated with floor division before ell is computed", "lengths strictly between 255 and 256 blocks"),
 "R3pairingA": ("C12", "final_exponentiation returns Some(1) when conj(f) == f", "f = 0"),
 "R3pairingB": ("C11", "pairing_multi_product filters G1 identities out of one prepared list only", "a G1 identity at a non-final position"),
 "R3pairingC": ("C11", "pairing_product 'trivial pair' shortcut returns pairing(p1, q2) when the second pair is trivial", "second pair contains an identity"),
 "R3g1g2A": ("C07", "G1Affine::in_subgroup drops the curve-equation conjunct", "an off-curve pair of order r on an isomorphic curve, (s^2 x, s^3 y)"),
 "R3g1g2B": ("C04", "G2Uncompressed: sort-flag error deferred until after the coordinate range checks", "sort flag set AND a non-reduced coordinate: wrong error category (order of validations)"),
 "R3g1g2C": ("C03", "G2Affine::perform_pairing returns Fq12::zero() for identity operands", "pairing_with from the G2 side with an identity"),
 "R3hashingA": ("C13", "XMD block count rounded down, loop runs one extra block", "lengths strictly between 255 and 256 blocks return bytes instead of aborting"),
 "R3hashingB": ("C15", "G2 osswu_map sign alignment uses u.c0.sgn0()", "purely imaginary t with odd c1"),
 "R3hashingC": ("C14", "map2_to_curve adds on the isogenous curve unless p1 == p2", "distinct inputs with coinciding SSWU images"),
 "R3towerA": ("C09", "Fq12::frobenius_map indexes its table with power % 6", "k mod 12 in 6..=11 on an element with non-zero w-part"),
 "R3towerB": ("C18", "Fq2 partial_cmp written by hand: tie-break compares self.c0 with other.c1", "operands with equal u-coefficients through <, >, <=, >="),
 "R3towerC": ("C18", "Fq2::sqrt starts with 'if legendre() != QuadraticResidue { None }'", "the input 0 (Legendre symbol Zero): sqrt(0) = None"),
 "R3ecmodA": ("C02", "mul_precomp_3 first nibble (bits[3] >> 61) & 8", "scalars with bit 255 set"),
 "R3ecmodB": ("C10", "sum_of_products_precomp_256 bounds the term count by pre.len() >> 8", "fewer points than scalars with a table that covers more points"),
 "R3ecmodC": ("C01", "batch_normalization first pass filters with !is_zero(), later passes with !is_normalized()", "an already-normalised non-identity entry after a non-normalised one"),
})
def _r3src(n):
    import re
    m = re.match(r"R3([a-z0-9]+)([ABC])$", n)
    return "/tmp/mut3/%s/_out/%s" % (m.group(1), m.group(2))
SRC_OVERRIDE.update({n: _r3src(n) for n in NEEDS if n.startswith("R3")})
SRC_OVERRIDE.update({n: "/tmp/mut2/%s/_out/%s" % (n[:3], "A" if n[3] == "C" else "B") for n in NEEDS if not n.startswith("R3") and n[3] in "CD"})

NEEDS.update({
 "R3wnafA": ("C02", "wnaf_form updates only limb 0 when removing a negative digit (carry out of the low limb lost)", "scalars with a run of about 64 consecutive one bits (2^64-1, 2^128-1, ...)"),
 "R3wnafB": ("C02", "wnaf_exp returns table[0] for a one-digit expansion", "odd k below 2^window with a window of at least 3 (single windowed digit)"),
 "R3wnafC": ("C02", "wnaf_table extends an existing table when the base is unchanged and duplicates the last entry", "the same context staged twice with the same base and a larger window the second time"),
})
SRC_OVERRIDE.update({n: _r3src(n) for n in NEEDS if n.startswith("R3")})

# round 4: agents got the list of all earlier ideas (about 100) and were asked for what had NOT been explored; ids R4g<n><A|B|C>
NEEDS.update({
 "R4g1A": ("C01", "projective == fast path when Z^2 == Z'^2 compares X, Y directly", "two representatives with opposite Z (e.g. 2P against 2(-P))"),
 "R4g1B": ("C01", "add_assign skips the cross-scalings when self.z == other.z (Z3 formula then only exact for Z = 1)", "two distinct, non-opposite points sharing a Z other than 1"),
 "R4g1C": ("C02", "wnaf_table asserts (2..22).contains(&window) - exclusive upper bound", "window 22, the last documented size: panic"),
 "R4g2A": ("C10", "Pippenger word-straddling branch casts the low part of a digit through u16", "window 19 at the word-1/word-0 boundary with bit 63 of the lowest limb set"),
 "R4g2B": ("C10", "add_assign_mixed fast path for self.z == 1 returns before the equal-operand test", "P + P with Z = 1: a repeated point hitting the same bucket / table byte"),
 "R4g2C": ("C10", "Pippenger replaces the top-bit assert by Fr::from_repr(..).is_ok() on every used scalar", "scalars in [r, 2^255): abort instead of a result"),
 "R4g3A": ("C11", "pairing_multi_product prepares each distinct G2 element once; repeated elements store an index into the wrong list", "a repeated G2 element whose first occurrence comes after an earlier repetition, e.g. [A,A,B,C,B]"),
 "R4g3B": ("C03", "G2 generator line coefficients cached in a OnceLock and recognised by x only", "Q = -g2 = [r-1]g2 is prepared as +g2"),
 "R4g3C": ("C11", "pairing_product folds pairs with equal / opposite G2 operands into one pairing evaluated against q2", "pairing_product(p1, q, p2, -q) with p1 != p2"),
 "R4g4A": ("C04", "G1Uncompressed dispatches on the three flag bits with an over-broad default arm", "compression and sort bits both set on uncompressed input: wrong error category"),
 "R4g4B": ("C19", "Fr deserialize adds a fail-fast check on the top limb (>= instead of >)", "canonical scalars whose top limb equals that of r, e.g. r-1, r-2"),
 "R4g4C": ("C19", "G1 deserialize uses take(48).read_to_end and checks the length after indexing buf[0]", "the empty stream: index-out-of-bounds panic"),
 "R4g5A": ("C08", "inherent FrRepr::shl ('move whole limbs first') shifts by 64 - bits without guarding bits == 0", "shift amounts 64, 128, 192 (release: wrong value, debug: shift-overflow panic)"),
 "R4g5B": ("C09", "Fq12::mul_assign fast path for self == one, where is_one() compares Montgomery limbs with integer 1", "left operand 2^-384 mod q embedded in Fq12"),
 "R4g5C": ("C09", "Fq12::mul_assign fast path for a right operand in Fq6 multiplies self.c1 by other.c1", "right operand in Fq6 (including one) and a left operand with non-zero w-part"),
 "R4g6A": ("C13", "XMD XOR step rewritten with chunks_exact(8) (remainder dropped)", "a hash whose digest length is not a multiple of 8 (SHA-224, SHA-512/224) and more than one block"),
 "R4g6B": ("C14", "the final debug_assert gains '!p.is_zero() &&'", "debug builds panic whenever the correct result is the identity, e.g. map2(u, -u)"),
 "R4g6C": ("C13", "XMD block index kept in a running u8 that is incremented after each use", "exactly 255 blocks: debug builds panic on 255u8 + 1"),
 "R4g7A": ("C16", "eval_iso early exit tests the x NUMERATOR instead of the denominator", "the 22 rational preimages of the 3-torsion points (roots of XNUM)"),
 "R4g7B": ("C16", "G1 isogeny_map returns its input when it already satisfies the target curve equation", "the rational points where E' and E intersect, x* = (4 - B')/A'"),
 "R4g7C": ("C17", "clear_h debug_asserts the Jacobian curve equation on its input", "the canonical identity (0:1:0) in debug builds"),
 "R4g8A": ("C20", "mul_assign fast path for the generator through a lazily built static table published before it is filled", "threads whose first generator multiplication in the process overlap"),
 "R4g8B": ("C20", "hash_to_field keeps a thread-local memo keyed on (msg, dst, length) but not on the expander", "the same inputs hashed under another expander right afterwards on the same thread"),
 "R4g8C": ("C20", "pairing_multi_product prepares blocks of 16 on worker threads and gathers them in completion order", "32 or more pairs: nondeterministic wrong results"),
})
def _r4src(n):
    return "/tmp/mut4/%s/_out/%s" % (n[2:4], n[4])
SRC_OVERRIDE.update({n: _r4src(n) for n in NEEDS if n.startswith("R4")})

# round 5: agents got the list of ~130 earlier ideas (all detected by then) and were asked for KINDS absent from it; ids R5h<n><A|B|C>
NEEDS.update({
 "R5h1A": ("C02", "projective mul_assign reduces the scalar modulo r before the ladder", "a curve point OUTSIDE the subgroup together with a scalar >= r on the projective plain path"),
 "R5h1B": ("C01", "batch_normalization works in blocks of 1024 with one scratch vector that is never cleared", "slices longer than 1024 with non-normalised entries in two blocks"),
 "R5h1C": ("C10", "sum_of_products_precomp_256 walks the points in blocks of 64 sharing one Horner accumulator", "more than 64 points on the table-driven variant"),
 "R5h2A": ("C12", "final_exponentiation fast path for unitary input (conj(f)*f == 1) uses f instead of conj(f)", "unitary f outside Fq6: pairing values, conj(x)/x"),
 "R5h2B": ("C11", "pairing_multi_product in blocks of 256 via chunks_exact; the remainder is taken from the FRONT of the slice", "more than 256 pairs, length not a multiple of 256"),
 "R5h2C": ("C09", "Fq12::frobenius_map reduces the power as u32 before % 12", "k >= 2^32 with floor(k / 2^32) not a multiple of 3"),
 "R5h3A": ("C05", "G1Compressed sort flag by limb comparison with (q-1)/2; the tie-break compares little-endian limb slices", "y sharing its top limb with (q-1)/2 (2^-60 of all points): constructible only OUTSIDE the subgroup, i.e. outside the property's domain"),
 "R5h3B": ("C19", "Fq12::serialize uses write() instead of write_all()", "a writer that accepts fewer than 576 bytes per call"),
 "R5h3C": ("C19", "G2Affine::serialize uses a naive write loop", "a writer that reports Interrupted (not retried) or Ok(0)"),
 "R5h4A": ("C13", "XMD block count written as (len-1)/b + 1", "len_in_bytes = 0 (count = 0): abort instead of the empty string"),
 "R5h4B": ("C13", "dst_prime helper computes a capacity hint as u8 + 1", "a tag of exactly 255 bytes in builds with overflow checks: panic"),
 "R5h4C": ("C13", "XOF expander gains a length guard with >= 65535", "a request of exactly 65535 bytes"),
 "R5h5A": ("C20", "Pippenger buckets kept thread-local and validated by a u16 epoch stamp that wraps", "a bucket last written exactly 65536 window iterations ago on the same thread"),
 "R5h5B": ("C20", "per-curve thread-local buckets share one type-erased stamp array", "G1 and G2 MSMs interleaved on one thread with equal window counts"),
 "R5h5C": ("C20", "thread-local ring of the 16 most recently prepared G2 elements; on eviction only the payload is overwritten", "17 distinct G2 elements prepared on one thread, then one of the first 16 again"),
 "R5h6A": ("C10", "find_pippinger_window falls back to the floating-point estimate beyond the last table boundary", "n >= about 5*10^6: windows 18, 20, 24, ..."),
 "R5h6B": ("C19", "Fq12::serialize uses write() instead of write_all()", "a writer that does not take the whole buffer in one call"),
 "R5h6C": ("C02", "projective mul_assign reduces the scalar with repeated subtraction of r", "a point outside the subgroup with a scalar >= r"),
})
def _r5src(n):
    return "/tmp/mut5/%s/_out/%s" % (n[2:4], n[4])
SRC_OVERRIDE.update({n: _r5src(n) for n in NEEDS if n.startswith("R5")})

# round 6: agents got the list of ~150 earlier ideas and were asked for new KINDS or new trigger classes; ids R6k<n><A|B|C>
NEEDS.update({
 "R6k1A": ("C02", "mul_precomp_256 adds table entries through a mixed addition without the equal-operand (doubling) branch", "a scalar for which the 8x32 comb ladder meets accumulator == table entry (mod r): k = r + 2*T_b with b the parity vector of k's own columns (one value below 2^255)"),
 "R6k1B": ("C02", "precomp_256 returns early when pre[1] == self ('table already built')", "a destination buffer pre-filled with the base point itself (not its table)"),
 "R6k1C": ("C02", "mul_precomp_3 normalises its 16-entry table and adds entries without a doubling branch", "k = r + 2(1 + 2^128) or 2r + 2*2^64: the 4x64 comb ladder meets accumulator == table entry"),
 "R6k2A": ("C11", "miller_loop returns 1 early when the iterator's size_hint lower bound is 0", "the pairs handed over through filter / skip_while / from_fn / any iterator with an uninformative size_hint"),
 "R6k2B": ("C09", "Fq12::inverse 'norm one => conjugate' fast path tests c0^2 - c1^2 == 1 (non-residue forgotten)", "elements with c0^2 - c1^2 = 1 in Fq6 (e.g. c0 = 0, c1^2 = -1, or c0 = (t+1/t)/2, c1 = (t-1/t)/2)"),
 "R6k2C": ("C11", "G2Prepared gets a manual Clone whose clone_from copies the coefficients but not the identity flag", "a prepared slot overwritten in place (clone_from) by a source whose identity-ness differs"),
 "R6k3A": ("C19", "point readers pre-check the two leading bytes of the first coordinate with < 0x1a01 instead of <=", "a subgroup point whose leading coordinate starts with 1a 01 (1 in 95000; found by search: [73037]g1, [25983]g2)"),
 "R6k3B": ("C19", "Fq12::deserialize wraps the caller's reader in a 48-byte BufReader", "a reader returning short reads of a size that does not divide 576, with data following the element: bytes beyond 576 are consumed"),
 "R6k3C": ("C19", "Fr / Fq12 deserialize gain a limb-wise pre-check that forgets the early accept on a smaller limb", "a canonical value with the modulus' top limb, a smaller next limb and a larger lower limb"),
 "R6k4A": ("C13", "XMD: ell and the abort guard are computed from the length truncated to u16", "a request >= 65536 bytes whose low 16 bits are at most 255 blocks (65536, 2^20, ...)"),
 "R6k4B": ("C15", "G2 osswu_map sign fix uses y.c0.sgn0() instead of y.sgn0()", "an input whose SWU image has a purely imaginary y (y.c0 = 0) with odd c1"),
 "R6k4C": ("C13", "XOF expander gains an RFC-style guard that rejects the empty tag", "a SHAKE expander with the empty tag"),
 "R6k5A": ("C20", "Fq12::serialize assembles its image in a process-wide Mutex<Vec<u8>> that stays locked during writer.write_all", "a writer that serialises another Fq12 inside write() (self-deadlock), or that blocks on another thread doing so"),
 "R6k5B": ("C19", "Fq12::serialize builds its image in a thread-local buffer cleared only after a successful write_all", "a serialize whose writer returns an error, then the next Fq12::serialize on that thread: 1152 bytes"),
 "R6k5C": ("C04", "G2Compressed::into_affine keeps a one-entry thread-local memo initialised to (96 zero bytes -> identity)", "the all-zero 96-byte string as the first checked G2 decompression on a thread"),
 "R6k6A": ("C13", "XMD: len_in_bytes shadowed by a u16 copy before ell and the guard", "a request >= 65536 bytes with a small residue mod 65536"),
 "R6k6B": ("C10", "precomp_256 derives its piece schedule from pre.len()/2", "precomp_256 handed the rest of a longer buffer (&mut pre[j*256..]) with tables built last-first or rebuilt in place: the neighbouring table is overwritten"),
 "R6k6C": ("C10", "sum_of_products gains a single-point fast path placed before the min-length logic", "exactly one point with an empty scalar list: panic instead of the identity"),
})
def _r6src(n):
    return "/tmp/mut6/%s/_out/%s" % (n[2:4], n[4])
SRC_OVERRIDE.update({n: _r6src(n) for n in NEEDS if n.startswith("R6")})

# round 7: ~165 earlier ideas; agents were pointed at what was still outside (trait methods and conversions, generic
# parameters, in-place vs by-value variants, long-lived helper objects, value-dependent Option/Result/bool); ids R7m<n><A|B|C>
NEEDS.update({
 "R7m1A": ("C01", "projective PartialEq gains a hand-written ne() whose y test is not cross-multiplied", "the != operator itself (assert_ne!/== do not call it) on the same point in two Jacobian representations"),
 "R7m1B": ("C02", "projective mul_assign reimplemented on the wNAF routines (window 4)", "the eight odd scalars in [2^256-15, 2^256-1]: the digit removal wraps past 2^256"),
 "R7m1C": ("C10", "precomp_256 identity fast path clears the whole slice it was handed", "an identity point at a non-final index, rest-of-buffer slices, later tables already built"),
 "R7m2A": ("C09", "Fq12::square shortcut for c0 == 0 returns b^2 instead of b^2 v", "elements g*w (c0 = 0)"),
 "R7m2B": ("C12", "Fq6::is_zero tests c1 twice + Fq12::inverse returns None early when is_zero()", "non-zero f whose two Fq6 halves are multiples of v^2: inverse / final_exponentiation report failure"),
 "R7m2C": ("C09", "Fq6::square shortcut for c2 == 0 squares c0 in place before the cross term", "a + b v with b != 0 and a not in {0, 1}"),
 "R7m3A": ("C04", "G1 unchecked compressed decoder selects the root against a mistyped (q-1)/2 constant (30720 too small)", "x whose smaller root lies within 30720 below (q-1)/2 (constructible only as cube roots of y^2-4: points outside the subgroup, unchecked decoder)"),
 "R7m3B": ("C19", "G2 stream readers pre-check y.c1 / y.c0 with < 0x1a01", "an uncompressed G2 point whose y component starts with 1a 01 (found by search)"),
 "R7m3C": ("C04", "unchecked uncompressed decoders reject y = 0 as NotOnCurve before the range checks", "an uncompressed string with y = 0 on the unchecked decoder"),
 "R7m4A": ("C13", "XMD b_0 input staged in a 1024-byte buffer whose fit test forgets the tag-length byte", "msg.len() + dst.len() == 1021 exactly"),
 "R7m4B": ("C13", "hash_to_field asserts count <= 255", "256 or more elements where legal (Fr with SHA-512, any field with an XOF)"),
 "R7m4C": ("C13", "XMD keeps its blocks in [0u8; 8192]", "a wide digest with a large legal length (SHA-512: 8193..16320 bytes)"),
 "R7m5A": ("C20", "Wnaf::base keeps the staged table when the new base == the old one (group equality)", "the same point staged again in another Jacobian representation: right point, history-dependent coordinates"),
 "R7m5B": ("C20", "batch_normalization rewritten as a recursion whose depth is the number of non-normalised entries", "about 3500+ G2 (5000+ G1) entries on a thread with the default 2 MiB stack: stack overflow"),
 "R7m5C": ("C20", "Pippenger bucket vector pooled in a thread_local accessed with LocalKey::with", "an MSM called from a caller's thread-local destructor registered before the thread's first MSM: abort"),
 "R7m6A": ("C01", "projective eq loses its other.is_zero() guard", "the all-zero triple (0,0,0) - which eval_iso itself returns for the identity - as right-hand operand: P == O is true"),
 "R7m6B": ("C13", "hash_to_field asserts len_in_bytes <= 255*32", "more than 8160 bytes with SHA-512 / SHA-384 / SHAKE"),
 "R7m6C": ("C01", "default sub_assign_mixed rewritten with an identity shortcut that forgets the negation", "identity minuend: O - Q returns Q"),
})
def _r7src(n):
    return "/tmp/mut7/%s/_out/%s" % (n[2:4], n[4])
SRC_OVERRIDE.update({n: _r7src(n) for n in NEEDS if n.startswith("R7")})

# round 8: ~180 earlier ideas; agents organised by API surface (traits, encodings, field traits, engine, hashing pipeline,
# purity) and told in a paragraph which operand classes and usage patterns the harness drives; ids R8n<n><A|B|C>
NEEDS.update({
 "R8n1A": ("C01", "add_assign_mixed skips the Z1 scalings when Z1^2 == 1", "a projective left operand with Z exactly -1 in a mixed addition"),
 "R8n1B": ("C02", "precomp_3 batch-normalises its three multiples and assembles the affine entries by hand (infinity: false)", "the identity as base point with a scalar bit at position >= 64 on the 3-entry table path"),
 "R8n1C": ("C02", "Wnaf::base rebuilds the window table only if num_scalars > 0", "hint 0 followed by scalar(): stale table on a reused context, panic on a fresh one"),
 "R8n2A": ("C04", "G1Compressed::into_affine: one-entry thread-local memo keyed by a 64-bit fingerprint of the 48 bytes", "a valid encoding followed on the same thread by a DIFFERENT string with the same fingerprint (constructed from the hash definition; 2^-64 by chance)"),
 "R8n2B": ("C19", "Fq12::deserialize clears the top three bits of every 48-byte slot before parsing", "a coefficient c + j*2^381 with c < q"),
 "R8n2C": ("C04", "infinity payload test masks the three top bits of every 48-byte slot after the first", "an infinity encoding with stray bits only in the top three bits of byte 48 (96, 144)"),
 "R8n3A": ("C09", "Fq12::mul_assign 'equal operands => square' fast path compares c0 twice", "two different operands with identical c0 halves, e.g. x * conj(x)"),
 "R8n3B": ("C09", "Fq6::mul_assign equality fast path compares self.c2 with other.c1", "left (a, b, b), right (a, b, x) with x != b"),
 "R8n3C": ("C09", "Fq2::mul_assign equality fast path compares self.c1 with other.c0", "left a(1+u), right with real part a"),
 "R8n4A": ("C12", "Fq12::inverse fast path for elements whose Fq6 norm lies in Fq2 scales c1.c2 twice", "Fq4 elements a + b v w and Fq2-multiples of unitary elements"),
 "R8n4B": ("C11", "miller_loop groups pairs by pointer identity of the G2Prepared object; the identity filter breaks the index alignment", "a G1 identity paired with a prepared G2 object that a later non-trivial pair references again"),
 "R8n4C": ("C12", "Fq6::inverse fast path for a norm in the prime field builds the third coefficient from the wrong cofactor", "elements of the cubic subfield Fq3 (not a coefficient pattern) and Fq-multiples of norm-one elements"),
 "R8n5A": ("C14", "map2_to_curve compares the affine x of the two images after the isogeny and short-cuts to 2P or O by sgn0 of the inputs", "SSWU images that differ by a rational kernel point of the 11-isogeny: equal / opposite only on the target curve"),
 "R8n5B": ("C13", "XOF output read in 4096-byte pages with a loop that skips the last full page", "a requested length that is a positive multiple of 4096"),
 "R8n5C": ("C13", "XMD hashes the block-rounded length into b_0", "any request that is not a multiple of the digest size"),
 "R8n6A": ("C20", "miller_loop folds pairs that reference the same G2Prepared object (ptr::eq) into (P1+P2, Q)", "two pairs sharing one prepared object: the raw Miller value depends on aliasing (reduced pairings stay right)"),
 "R8n6B": ("C02", "mul_precomp_3 keeps its 16-entry table in a thread-local RefCell borrowed across other.into()", "a caller-defined scalar type whose Into<FrRepr> itself calls mul_precomp_3: BorrowMutError panic"),
 "R8n6C": ("C04", "infinity check scans the buffer with align_to::<u64>() and ignores the unaligned tail", "an encoding object at a misaligned address with dirty bytes among its last bytes"),
})
def _r8src(n):
    return "/tmp/mut8/%s/_out/%s" % (n[2:4], n[4])
SRC_OVERRIDE.update({n: _r8src(n) for n in NEEDS if n.startswith("R8")})

# round 9: same organisation as round 8, ~200 earlier ideas; ids R9p<n><A|B|C>
NEEDS.update({
 "R9p1A": ("C10", "sum_of_products fast path for a common scalar: k * (sum of ALL points) although only min(#points,#scalars) terms count", "all used scalars equal and non-zero, strictly more points than scalars"),
 "R9p1B": ("C10", "sum_of_products adds a point directly when its scalar 'is 1' (limb 3 never inspected)", "a scalar 1 + j*2^192"),
 "R9p1C": ("C10", "Pippenger short-last-window branch iterates over all scalars", "more scalars than points, a window not dividing 256, a surplus scalar with low bits set: index panic"),
 "R9p2A": ("C04", "G2 unchecked decoders range-check c1 before c0", "both components of one coordinate non-reduced: only the LABEL inside the coordinate error changes (category unchanged)"),
 "R9p2B": ("C04", "G1Uncompressed::into_affine memo keyed by the x slot and the parity of y", "a valid point, then on the same thread the same x with another y of equal parity: accepted"),
 "R9p2C": ("C05", "G2Compressed::from_affine hand-expanded comparison with a crossed tie-break", "y in Fq above (q-1)/2 or y.c1 = -y.c0: such points exist only outside the order-r subgroup"),
 "R9p3A": ("C09", "Fq6::mul_assign shortcut when the left operand has c1 + c2 == 0 drops two subtractions", "left operand with c1 == -c2 != 0"),
 "R9p3B": ("C18", "Fq2 Ord gets hand-written min / max; min is a copy of max with only the outer arms swapped", "Ord::min on two different Fq2 values with equal c1"),
 "R9p3C": ("C09", "Fq6::mul_by_01 guard on a0 + a2 != 0 swallows a subtraction", "a MULTIPLICAND with c0 == -c2 != 0"),
 "R9p4A": ("C03", "Bls12::pairing override with a thread-local cache of the last G2 coefficients, read back after p.into()", "a caller-defined Into<G1Affine> type whose conversion evaluates a pairing with another G2 point: e(P,Q') returned"),
 "R9p4B": ("C11", "pairing_product folds e(P,Q1) e(P,Q2) when p1.y == p2.y", "p2 = [lambda]p1: the automorphism image (beta x, y), same y and different x"),
 "R9p4C": ("C20", "pairing_product override holds a process-wide Mutex across the four generic into() conversions", "a conversion that panics (lock poisoned for every later call) or that calls pairing_product itself (deadlock)"),
 "R9p5A": ("C13", "XMD Z_pad fed as s_in_bytes / 64 words of 64 zero bytes", "a hash whose block size is not a multiple of 64: SHA-3 as H (no Merkle-Damgard hash available here is affected)"),
 "R9p5B": ("C16", "eval_iso treats Z^3 == 1 as affine input", "a Jacobian representative whose Z is a primitive cube root of unity"),
 "R9p5C": ("C13", "XMD b_i preimage assembled in [0u8; 64 + 1 + 255] (tag-length byte forgotten)", "a 64-byte digest, a 255-byte tag and more than one output block: panic"),
 "R9p6A": ("C20", "mul_assign fixed-base path through a lazily built OnceLock table built from the first caller's representative", "the process's first generator multiplication uses a non-normalised representative: coordinates differ between processes"),
 "R9p6B": ("C20", "wnaf_form process-wide one-entry memo reused when the limbs match and the window is >= the remembered one", "the same scalar recoded twice in a row, the second time with a wider window"),
 "R9p6C": ("C20", "Pippenger buckets in a 512-entry stack array (72 / 144 KiB frame)", "a call from a thread whose stack is smaller than about 150 KiB: stack overflow"),
})
def _r9src(n):
    return "/tmp/mut9/%s/_out/%s" % (n[2:4], n[4])
SRC_OVERRIDE.update({n: _r9src(n) for n in NEEDS if n.startswith("R9")})
# round 10 (continuation session): one agent per property for the properties with the fewest kept changes; ids R10m<n>A
NEEDS.update({
 "R10m1A": ("C06", "expand_message (XMD and XOF) gains the RFC 5.3.3 oversize-tag path, tested on DST_prime (len + 1 > 255) instead of DST", "a domain-separation tag of exactly 255 bytes: every hash_to_field / hash_to_curve / encode_to_curve value differs; 0..254 bytes unchanged"),
 "R10m2A": ("C07", "SubgroupCheck::in_subgroup for G1Affine no longer calls is_on_curve(), only [r]P == O", "an off-curve pair on an isomorphic curve y^2 = x^3 + 4 s^6, e.g. (4X, 8Y) for (X,Y) in G1: the Jacobian formulas never use b, so [r](4X,8Y) = O and the pair is accepted"),
 "R10m3A": ("C08", "inherent Fq::pow (shadows Field::pow on the concrete type) loads the exponent into a 6-limb FqRepr", "an exponent with a non-zero limb at index 6 or above, through the concrete method (the trait path is unchanged)"),
 "R10m5A": ("C11", "Bls12::miller_loop returns Fq12::one() as soon as ANY pair has an operand at infinity (instead of skipping that pair)", "a multi-pair call (miller_loop / pairing_product / pairing_multi_product) containing an identity pair next to a non-trivial pair: the whole product collapses to 1"),
 "R10m6A": ("C15", "G2 osswu_map caches the sign of u as u.c0.sgn0() instead of u.sgn0()", "u with c0 == 0 and c1 odd (purely imaginary): the map returns -P, sgn0(y) != sgn0(u)"),
 "R10m7A": ("C18", "Fq2::legendre fast path for c0 == 0 returns c1.legendre(); Fq2::sqrt decides 'no root' from self.legendre() (two cooperating sites)", "a = c1*u with c1 a non-residue of Fq (e.g. -u): legendre says non-residue, sqrt returns None although a root exists"),
 "R10m8A": ("C12", "final_exponentiation fast path: r.c1 == 0 (r in Fq6) returns Some(1)", "the single input Fq12::zero(): Some(1) instead of None"),
 "R10m9A": ("C16", "eval_iso 'normalised input' fast path taken when Z^2 == 1 skips the final yden *= Z^3", "a Jacobian representative with Z = -1: the image is negated (both isogenies)"),
 "R10m0A": ("C05", "G1Compressed::from_affine decides the sort flag from the top 16 bits of y against 0x0d00 and, on a tie, falls back to the full comparison with swapped operands", "a subgroup point whose y has top 16 bits 0x0d00 (about 1 point in 6657): the flag is inverted, the encoding decodes to -P"),
 "R10m4A": ("C17", "chain_z returns early when the accumulator is the identity after the link that computes 3P", "a chain input of order 3, e.g. (0, 2) on E(Fq): clear_h returns the point itself instead of the identity"),
})
SRC_OVERRIDE.update({n: "/tmp/mut10/m%s/_out/A" % n[4] for n in NEEDS if n.startswith("R10")})
# round 11 (same session, last minutes): three more, the agents being told the round-10 idea for their property
NEEDS.update({
 "R11m1A": ("C13", "expand_message_xmd short-message path assembling msg || l_i_b || 0 in a 64-byte stack buffer, guarded by n + 2 <= 64 instead of n + 3 <= 64", "a message of exactly 62 bytes: the trailing zero octet of the b_0 input is dropped; every XMD-based value differs"),
 "R11m2A": ("C17", "G2 clear_h 'cheap normalisation' when the input's Z lies in Fq (z.c1 == 0, Z not 0 or 1): y.c1 scaled by z^-2 instead of z^-3", "a Jacobian representative whose Z is a base-field element other than 0, 1, e.g. (9X, 27Y, 3)"),
 "R11m3A": ("C03", "G2Affine::perform_pairing (behind G2Affine::pairing_with) returns Fq12::zero() when the G2 operand is the identity", "Q = identity and the call made from the G2 side (q.pairing_with(&p)); Engine::pairing and p.pairing_with(&q) unchanged"),
})
SRC_OVERRIDE.update({n: "/tmp/mut11/m%s/_out/A" % n[4] for n in NEEDS if n.startswith("R11")})
REJECT = {
 "R9p2A": "only the coordinate LABEL inside CoordinateDecodingError changes; the category (coordinate range) and its position in the validation order are unchanged, which is all C04 states. A behaviour-preserving control (BENb: 'another order of the range checks inside the coordinate stage') makes the same change and must stay silent.",
 "R9p2C": "the triggering points exist only outside the order-r subgroup (the author says so): outside C05's domain, like C05A.",
 "R9p5A": "C13 quantifies over Merkle-Damgard hashes; the only affected hashes are sponge functions (SHA-3 / Keccak), so the property as stated still holds.",
 "R9p6C": "the change needs a calling thread with a stack below ~150 KiB; main and std::thread default stacks (8 / 2 MiB) are unaffected for every input. The checks claim C20 for threads with the platform's default stacks; stack frugality is not part of any property.",
}


def first_line(path, pat):
    try:
        for l in open(path):
            if re.search(pat, l):
                return l.strip()
    except OSError:
        pass
    return None


def main():
    os.makedirs("/verif/seeded", exist_ok=True)
    rows = []
    for name in sorted(NEEDS):
        prop, what, needs = NEEDS[name]
        src = SRC_OVERRIDE.get(name, "/tmp/mut/%s/_out/%s" % (name[:3], name[3]))
        resf = "/tmp/mc/%s.result" % name
        if not os.path.exists(resf) or not os.path.exists(src + "/patch.diff"):
            # already collected earlier? keep the existing directory
            if os.path.exists("/verif/seeded/%s/meta.json" % name):
                m = json.load(open("/verif/seeded/%s/meta.json" % name))
                rows.append((name, m))
            continue
        res = dict(l.strip().split("=", 1) for l in open(resf) if "=" in l)
        confirmed = (res.get("demo_clean") == "pass" and res.get("demo_mut", "").startswith("fail") and "129 passed; 0 failed" in res.get("suite", "")
                     and res.get("build_verif") == "ok")
        detection = {}
        for out in sorted(glob.glob("/tmp/mw-out/%s/C*.out" % name)):
            chk = os.path.basename(out)[:-4]
            txt = open(out).read()
            if "VIOLATION" in txt:
                detection[chk] = "VIOLATION: " + (first_line(out, r"op:") or "")[:200]
            elif re.search(r"^OK ", txt, re.M):
                detection[chk] = "not detected (OK)"
            else:
                detection[chk] = "inconclusive: " + txt[:200]
        meta = dict(id=name, property_attacked=(name[:3] if not name.startswith("R") else "(any; organised by source file)"), property_broken=prop, change=what, needs_to_manifest=needs,
                    confirmed_by_me=dict(demo_passes_on_clean_tree=res.get("demo_clean"), demo_with_change=res.get("demo_mut"),
                                         existing_suite_with_change=res.get("suite"), builds_with_feature_verif=res.get("build_verif")),
                    kept=bool(confirmed),
                    ran=["tools/confirm_mut.sh ... %s (scratch worktree, debug profile: demo on clean tree, demo with change, 129-test suite with change)" % name,
                         "tools/eval_mut.sh <patch> %s <checks> (scratch worktree, VERIF_REPO, quick tier)" % name],
                    detection=detection)
        if name == "R5h3A":
            meta["kept"] = False
            meta["rejected_because"] = ("the triggering points (y sharing its top limb with (q-1)/2) can only be constructed outside the order-r subgroup "
                                        "(choose y, take a cube root): outside the domain of C05 / C19; inside the subgroup the trigger has probability 2^-60 "
                                        "per point and cannot be constructed. Kept only as a record.")
        if name in REJECT:
            meta["kept"] = False
            meta["rejected_because"] = REJECT[name]
        if name.startswith("R11"):
            meta["property_attacked"] = {"1": "C06", "2": "C17", "3": "C03"}[name[4]]
        if name.startswith("R10"):
            meta["property_attacked"] = {"0": "C05", "1": "C06", "2": "C07", "3": "C08", "4": "C17", "5": "C03", "6": "C15", "7": "C18", "8": "C12", "9": "C16"}[name[4]]
        if name == "R10m0A":
            meta["first_evaluation"] = ("committed check before the strengthening: VIOLATION at seed 1 only through a pseudo-random chain point that happened to "
                                        "have such a y, OK (missed) at seed 5; after the enc-half class was added: reported at seeds 1, 5, 6 on a constructed point")
        if name == "R10m5A":
            meta["note"] = "written against C03; single pairings are unaffected, the multi-pair product is C11's subject and C11 reports it"
        if name == "R8n2A":
            meta["not_detected_because"] = ("the second string must collide with the first under a 64-bit fingerprint that only the changed code defines; "
                                            "no execution the checks produce (or could produce without reading that hash) contains such a pair, and every "
                                            "observable result on all other histories is unchanged: out of reach for runtime monitoring (DESIGN section 14)")
        if name == "C05A":
            meta["kept"] = False
            meta["rejected_because"] = ("the triggering points (y.c1 = 0) exist only outside the order-r subgroup, so the property as stated "
                                        "(every point OF G1/G2) still holds; the agent flagged this itself. Kept here only as a record.")
        d = "/verif/seeded/%s" % name
        os.makedirs(d, exist_ok=True)
        if os.path.exists(src + "/patch.rebased.diff"):
            # the change touched lines that a later "fix:" commit in /repo rewrote: the same change carried over to the fixed tree
            shutil.copy(src + "/patch.rebased.diff", d + "/patch.diff")
            shutil.copy(src + "/patch.diff", d + "/patch.orig.diff")
            meta["rebased"] = "patch.orig.diff is the agent's change against the tree before fix 1d35e99 (C13); patch.diff is the same change carried over to the fixed tree"
            json.dump(meta, open(d + "/meta.json", "w"), indent=1)
        else:
            shutil.copy(src + "/patch.diff", d + "/patch.diff")
        for f in ("demo.rs", "notes.md", "note.txt"):
            if os.path.exists(src + "/" + f):
                shutil.copy(src + "/" + f, d + "/" + f)
        json.dump(meta, open(d + "/meta.json", "w"), indent=1)
        rows.append((name, meta))
    # entries that are maintained by hand (regression seed of the genuine defect, sanitizer seeds, negative controls)
    have = {n for n, _ in rows}
    for mf in sorted(glob.glob("/verif/seeded/*/meta.json")):
        m = json.load(open(mf))
        if m["id"] in have:
            continue
        m.setdefault("kept", True)
        m.setdefault("detection", {})
        m.setdefault("property_broken", "-")
        m.setdefault("needs_to_manifest", m.get("result", "-"))
        rows.append((m["id"], m))
    with open("/verif/seeded/INDEX.md", "w") as f:
        f.write("# Seeded changes (each compiles, passes the 129 stable tests, and breaks a property only under a specific condition)\n\n")
        f.write("| id | breaks | change | needs | caught by (quick tier) | not caught by |\n|---|---|---|---|---|---|\n")
        for name, m in rows:
            hit = [c for c, v in m["detection"].items() if v.startswith("VIOLATION")]
            miss = [c for c, v in m["detection"].items() if not v.startswith("VIOLATION")]
            f.write("| %s%s | %s | %s | %s | %s | %s |\n" % (name, "" if m["kept"] else " (rejected)", m["property_broken"], m["change"], m["needs_to_manifest"],
                                                       ", ".join(hit) or "-", ", ".join(miss) or "-"))
    print("collected", len(rows))


if __name__ == "__main__":
    main()
