"""Textbook reduced ate pairing on BLS12-381 in the flat model of Fq12.

e(P, Q') = ( f_{|x|, psi(Q')}(P) )^( -3 (q^12 - 1) / r ),   psi(x', y') = (x' w^-2, y' w^-3)

Point arithmetic is done with affine steps on the twist E'(Fq2); each line is
evaluated at P in E(Fq) after scaling by w^3 (an element of the proper subfield
Fq4, killed by the final exponentiation):

   w^3 * l_{T,S}(P) = yP w^3 - lambda' xP w^2 + (lambda' x_T' - y_T')

The inverse required by the negative curve parameter is folded into the final
exponent: (1/f)^E = f^(q^12 - 1 - E).
"""
from .params import Q, R, X, FINAL_EXP
from . import fields as F
from .curves import E1, E2

ABS_X = -X
NEG_EXP = (Q**12 - 1) - FINAL_EXP


def _line(T, lam, P):
    """w^3 * line through T with slope lam (both on the twist), evaluated at P."""
    xP, yP = P
    c = F.f2_sub(F.f2_mul(lam, T[0]), T[1])          # lambda' x_T' - y_T'   (w^0)
    l = F.fl_from_f2(c, 0)
    m = F.fl_from_f2(F.f2_muls(lam, (-xP) % Q), 2)   # -lambda' xP           (w^2)
    l = F.fl_add(l, m)
    l[3] = (l[3] + yP) % Q                           # yP                    (w^3)
    return l


def miller(P, Qp):
    """f_{|x|, psi(Qp)}(P), vertical lines omitted. P on E(Fq), Qp on E'(Fq2), both non-identity."""
    f = list(F.FL_ONE)
    T = Qp
    for bit in bin(ABS_X)[3:]:
        # doubling step
        lam = F.f2_mul(F.f2_muls(F.f2_sqr(T[0]), 3), F.f2_inv(F.f2_muls(T[1], 2)))
        f = F.fl_mul(F.fl_mul(f, f), _line(T, lam, P))
        T = E2.add(T, T)
        if bit == "1":
            lam = F.f2_mul(F.f2_sub(Qp[1], T[1]), F.f2_inv(F.f2_sub(Qp[0], T[0])))
            f = F.fl_mul(f, _line(T, lam, P))
            T = E2.add(T, Qp)
    return f


def pairing_flat(P, Qp):
    if P is None or Qp is None:
        return list(F.FL_ONE)
    return F.fl_pow(miller(P, Qp), NEG_EXP)


def pairing(P, Qp):
    """Reduced pairing as a tower element."""
    return F.flat_to_tower(pairing_flat(P, Qp))


def final_exp_flat(f):
    return F.fl_pow(f, FINAL_EXP)


def final_exp(f12):
    return F.flat_to_tower(F.fl_pow(F.tower_to_flat(f12), FINAL_EXP))


def gt_pow(e12, k):
    """e^k for an element of the target group (order r)."""
    return F.flat_to_tower(F.fl_pow(F.tower_to_flat(e12), k % R))
