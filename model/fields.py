"""Reference field arithmetic: plain Python integers, schoolbook quotient-ring products.

Fq, Fr   : ints mod Q, R
Fq2      : (c0, c1)            c0 + c1*u,            u^2 = -1
Fq6      : (a0, a1, a2) of Fq2 a0 + a1*v + a2*v^2,   v^3 = 1+u
Fq12     : (b0, b1) of Fq6     b0 + b1*w,            w^2 = v
flat Fq12: list of 12 ints, Fq[w]/(w^12 - 2 w^6 + 2), u = w^6 - 1, v = w^2

No Karatsuba / Toom / lazy reduction: the formulas are deliberately not the ones
used in /repo.
"""
from .params import Q, R

# ----------------------------------------------------------------- Fq / Fr


def fq_inv(a):
    return pow(a, -1, Q)


def fq_sqrt(a):
    """Some square root of a in Fq or None (q = 3 mod 4)."""
    a %= Q
    s = pow(a, (Q + 1) // 4, Q)
    return s if s * s % Q == a else None


def fq_legendre(a):
    a %= Q
    if a == 0:
        return 0
    return 1 if pow(a, (Q - 1) // 2, Q) == 1 else -1


def fr_legendre(a):
    a %= R
    if a == 0:
        return 0
    return 1 if pow(a, (R - 1) // 2, R) == 1 else -1


def fr_sqrt(a):
    """Tonelli-Shanks from the definition (r - 1 = 2^32 * t)."""
    a %= R
    if a == 0:
        return 0
    if fr_legendre(a) != 1:
        return None
    s, t = 0, R - 1
    while t % 2 == 0:
        s += 1
        t //= 2
    z = 2
    while fr_legendre(z) != -1:
        z += 1
    m, c, tt, rr = s, pow(z, t, R), pow(a, t, R), pow(a, (t + 1) // 2, R)
    while tt != 1:
        i, x = 0, tt
        while x != 1:
            x = x * x % R
            i += 1
        b = pow(c, 1 << (m - i - 1), R)
        m, c = i, b * b % R
        tt, rr = tt * c % R, rr * b % R
    assert rr * rr % R == a
    return rr


# ----------------------------------------------------------------- Fq2

F2_ZERO = (0, 0)
F2_ONE = (1, 0)
XI = (1, 1)  # 1 + u, the cubic/quadratic non-residue


def f2(a, b=0):
    return (a % Q, b % Q)


def f2_add(a, b):
    return ((a[0] + b[0]) % Q, (a[1] + b[1]) % Q)


def f2_sub(a, b):
    return ((a[0] - b[0]) % Q, (a[1] - b[1]) % Q)


def f2_neg(a):
    return ((-a[0]) % Q, (-a[1]) % Q)


def f2_mul(a, b):
    return ((a[0] * b[0] - a[1] * b[1]) % Q, (a[0] * b[1] + a[1] * b[0]) % Q)


def f2_sqr(a):
    return f2_mul(a, a)


def f2_muls(a, k):
    return (a[0] * k % Q, a[1] * k % Q)


def f2_conj(a):
    return (a[0], (-a[1]) % Q)


def f2_norm(a):
    return (a[0] * a[0] + a[1] * a[1]) % Q


def f2_inv(a):
    n = f2_norm(a)
    ni = pow(n, -1, Q)
    return (a[0] * ni % Q, (-a[1]) * ni % Q)


def f2_is_zero(a):
    return a[0] % Q == 0 and a[1] % Q == 0


def f2_pow(a, e):
    r = F2_ONE
    for bit in bin(e)[2:] if e else "":
        r = f2_mul(r, r)
        if bit == "1":
            r = f2_mul(r, a)
    return r


def f2_legendre(a):
    """Quadratic character of a in Fq2 = character of its norm in Fq."""
    return fq_legendre(f2_norm(a))


def f2_sqrt(a):
    """Some square root of a in Fq2 (complex method via the norm) or None."""
    a = f2(*a)
    if a == F2_ZERO:
        return F2_ZERO
    c0, c1 = a
    if c1 == 0:
        s = fq_sqrt(c0)
        if s is not None:
            return (s, 0)
        s = fq_sqrt((-c0) % Q)  # -c0 is then a square; sqrt(c0) = s*u
        assert s is not None
        return (0, s)
    n = fq_sqrt(f2_norm(a))
    if n is None:
        return None
    inv2 = pow(2, -1, Q)
    for nn in (n, (-n) % Q):
        d = (c0 + nn) * inv2 % Q
        x = fq_sqrt(d)
        if x is None or x == 0:
            continue
        y = c1 * pow(2 * x, -1, Q) % Q
        if f2_sqr((x, y)) == a:
            return (x, y)
    raise AssertionError("norm is a square but no root found")


def f2_sgn0(a):
    """RFC 9380 sgn0 for m=2: parity of the first non-zero coefficient (c0 first)."""
    c0, c1 = a[0] % Q, a[1] % Q
    return (c0 & 1) if c0 != 0 else (c1 & 1)


def f2_cmp_key(a):
    """Lexicographic order with the u-coefficient most significant."""
    return (a[1] % Q, a[0] % Q)


# ----------------------------------------------------------------- Fq6

F6_ZERO = (F2_ZERO, F2_ZERO, F2_ZERO)
F6_ONE = (F2_ONE, F2_ZERO, F2_ZERO)


def f2_mul_xi(a):
    return f2_mul(a, XI)


def f6_add(a, b):
    return (f2_add(a[0], b[0]), f2_add(a[1], b[1]), f2_add(a[2], b[2]))


def f6_sub(a, b):
    return (f2_sub(a[0], b[0]), f2_sub(a[1], b[1]), f2_sub(a[2], b[2]))


def f6_neg(a):
    return (f2_neg(a[0]), f2_neg(a[1]), f2_neg(a[2]))


def f6_mul(a, b):
    a0, a1, a2 = a
    b0, b1, b2 = b
    r0 = f2_add(f2_mul(a0, b0), f2_mul_xi(f2_add(f2_mul(a1, b2), f2_mul(a2, b1))))
    r1 = f2_add(f2_add(f2_mul(a0, b1), f2_mul(a1, b0)), f2_mul_xi(f2_mul(a2, b2)))
    r2 = f2_add(f2_add(f2_mul(a0, b2), f2_mul(a1, b1)), f2_mul(a2, b0))
    return (r0, r1, r2)


def f6_mul_v(a):
    """multiply by v"""
    return (f2_mul_xi(a[2]), a[0], a[1])


def f6_is_zero(a):
    return all(f2_is_zero(c) for c in a)


# ----------------------------------------------------------------- Fq12 (tower)

F12_ZERO = (F6_ZERO, F6_ZERO)
F12_ONE = (F6_ONE, F6_ZERO)


def f12_add(a, b):
    return (f6_add(a[0], b[0]), f6_add(a[1], b[1]))


def f12_sub(a, b):
    return (f6_sub(a[0], b[0]), f6_sub(a[1], b[1]))


def f12_neg(a):
    return (f6_neg(a[0]), f6_neg(a[1]))


def f12_mul(a, b):
    a0, a1 = a
    b0, b1 = b
    r0 = f6_add(f6_mul(a0, b0), f6_mul_v(f6_mul(a1, b1)))
    r1 = f6_add(f6_mul(a0, b1), f6_mul(a1, b0))
    return (r0, r1)


def f12_conj(a):
    return (a[0], f6_neg(a[1]))


def f12_is_zero(a):
    return f6_is_zero(a[0]) and f6_is_zero(a[1])


def f12_coeffs(a):
    """12 Fq coefficients in tower order c0.c0.c0, c0.c0.c1, c0.c1.c0, ... c1.c2.c1."""
    return [a[i][j][k] % Q for i in range(2) for j in range(3) for k in range(2)]


def f12_from_coeffs(c):
    c = [x % Q for x in c]
    assert len(c) == 12
    return tuple(tuple((c[i * 6 + j * 2], c[i * 6 + j * 2 + 1]) for j in range(3)) for i in range(2))


def f6_coeffs(a):
    return [a[j][k] % Q for j in range(3) for k in range(2)]


def f6_from_coeffs(c):
    c = [x % Q for x in c]
    assert len(c) == 6
    return tuple((c[2 * j], c[2 * j + 1]) for j in range(3))


# ----------------------------------------------------------------- flat Fq12

FL_ZERO = [0] * 12
FL_ONE = [1] + [0] * 11


def fl_mul(a, b):
    t = [0] * 23
    for i in range(12):
        ai = a[i]
        if ai:
            for j in range(12):
                t[i + j] += ai * b[j]
    # w^12 = 2 w^6 - 2
    for k in range(22, 11, -1):
        c = t[k]
        if c:
            t[k - 6] += 2 * c
            t[k - 12] -= 2 * c
    return [x % Q for x in t[:12]]


def fl_sqr(a):
    return fl_mul(a, a)


def fl_add(a, b):
    return [(x + y) % Q for x, y in zip(a, b)]


def fl_sub(a, b):
    return [(x - y) % Q for x, y in zip(a, b)]


def fl_pow(a, e):
    """Left-to-right 4-bit fixed-window exponentiation, e >= 0."""
    if e == 0:
        return list(FL_ONE)
    tbl = [list(FL_ONE), list(a)]
    for _ in range(14):
        tbl.append(fl_mul(tbl[-1], a))
    nibbles = []
    while e:
        nibbles.append(e & 15)
        e >>= 4
    r = tbl[nibbles[-1]]
    for nb in reversed(nibbles[:-1]):
        r = fl_mul(r, r)
        r = fl_mul(r, r)
        r = fl_mul(r, r)
        r = fl_mul(r, r)
        if nb:
            r = fl_mul(r, tbl[nb])
    return r


def tower_to_flat(a):
    """c_{i,j,k} u^k v^j w^i with u = w^6 - 1, v = w^2."""
    f = [0] * 12
    for i in range(2):
        for j in range(3):
            c0, c1 = a[i][j]
            n = 2 * j + i
            f[n] += c0 - c1
            f[n + 6] += c1
    return [x % Q for x in f]


def flat_to_tower(f):
    c = [0] * 12
    for i in range(2):
        for j in range(3):
            n = 2 * j + i
            c[i * 6 + j * 2] = (f[n] + f[n + 6]) % Q
            c[i * 6 + j * 2 + 1] = f[n + 6] % Q
    return f12_from_coeffs(c)


def fl_from_f2(a, shift=0):
    """Embed the Fq2 element a (times w^shift, shift < 6) in the flat model."""
    f = [0] * 12
    f[shift] = (a[0] - a[1]) % Q
    f[shift + 6] = a[1] % Q
    return f


_FROB_W = {}


def frob_w(k):
    """w^(q^k) in the flat model, k mod 12 (computed once, iteratively)."""
    k %= 12
    if not _FROB_W:
        w = [0, 1] + [0] * 10
        _FROB_W[0] = w
        cur = w
        for i in range(1, 12):
            cur = fl_pow(cur, Q)
            _FROB_W[i] = cur
        assert fl_pow(cur, Q) == w, "w^(q^12) must be w"
    return _FROB_W[k]


def fl_frobenius(a, k):
    """x -> x^(q^k) as the Fq-algebra homomorphism w -> w^(q^k)."""
    wk = frob_w(k)
    r = [0] * 12
    p = list(FL_ONE)
    for n in range(12):
        if a[n]:
            r = [(x + a[n] * y) % Q for x, y in zip(r, p)]
        if n != 11:
            p = fl_mul(p, wk)
    return r


def f12_frobenius(a, k):
    return flat_to_tower(fl_frobenius(tower_to_flat(a), k))


def f6_frobenius(a, k):
    r = f12_frobenius((a, F6_ZERO), k)
    assert f6_is_zero(r[1])
    return r[0]


def f2_frobenius(a, k):
    return a if k % 2 == 0 else f2_conj(a)


def f12_pow(a, e):
    return flat_to_tower(fl_pow(tower_to_flat(a), e))


def f12_mul_fast(a, b):
    """Tower product through the flat model (cross-check of f12_mul)."""
    return flat_to_tower(fl_mul(tower_to_flat(a), tower_to_flat(b)))
