"""ZCash BLS12-381 point encoding (written from src/bls12_381/README.md and the property text).

48-byte big-endian field elements; Fq2 as c1 || c0; top three bits of byte 0:
bit7 compressed, bit6 infinity, bit5 sort (compressed only: y is the lexicographically larger root).
Decoder validation order: form flag -> infinity/sort flags -> coordinate range -> curve -> subgroup.
"""
from .params import Q, R
from . import fields as F
from .curves import E1, E2, FQ, FQ2

SIZES = {(1, True): 48, (1, False): 96, (2, True): 96, (2, False): 192}

ERR_MODE = "mode"            # UnexpectedCompressionMode
ERR_INFO = "info"            # UnexpectedInformation
ERR_COORD = "coord"          # CoordinateDecodingError
ERR_CURVE = "curve"          # NotOnCurve
ERR_SUBGROUP = "subgroup"    # NotInSubgroup


def _fe_bytes(g, x):
    if g == 1:
        return (x % Q).to_bytes(48, "big")
    return (x[1] % Q).to_bytes(48, "big") + (x[0] % Q).to_bytes(48, "big")


def _larger(g, y):
    """True iff y is lexicographically larger than -y."""
    if g == 1:
        return y % Q > (-y) % Q
    return F.f2_cmp_key(y) > F.f2_cmp_key(F.f2_neg(y))


def encode(g, P, compressed):
    n = SIZES[(g, compressed)]
    if P is None:
        b = bytearray(n)
        b[0] |= 0x40
    elif compressed:
        b = bytearray(_fe_bytes(g, P[0]))
        if _larger(g, P[1]):
            b[0] |= 0x20
    else:
        b = bytearray(_fe_bytes(g, P[0]) + _fe_bytes(g, P[1]))
    if compressed:
        b[0] |= 0x80
    assert len(b) == n
    return bytes(b)


def decode(g, data, compressed, checked=True, subgroup_oracle=None):
    """Returns ('ok', point) or ('err', category).

    subgroup_oracle(curve, P) may be supplied to memoise the (expensive) [r]P test."""
    n = SIZES[(g, compressed)]
    assert len(data) == n
    curve = E1 if g == 1 else E2
    b0 = data[0]
    if bool(b0 & 0x80) != compressed:
        return ("err", ERR_MODE)
    if b0 & 0x40:
        rest = bytes([b0 & 0x3f]) + data[1:]
        if any(rest):
            return ("err", ERR_INFO)
        return ("ok", None)
    if not compressed and (b0 & 0x20):
        return ("err", ERR_INFO)
    greatest = bool(b0 & 0x20)
    body = bytes([b0 & 0x1f]) + data[1:]
    ints = [int.from_bytes(body[i:i + 48], "big") for i in range(0, n, 48)]
    if any(v >= Q for v in ints):
        return ("err", ERR_COORD)
    if g == 1:
        fe = ints
    else:
        fe = [(ints[i + 1], ints[i]) for i in range(0, len(ints), 2)]
    if compressed:
        x = fe[0]
        P = curve.lift_x(x)
        if P is None:
            return ("err", ERR_CURVE)
        if _larger(g, P[1]) != greatest:
            P = curve.neg(P)
        # y = 0 cannot occur on these curves, so exactly one root is "larger"
    else:
        P = (fe[0], fe[1])
        if checked and not curve.on_curve(P):
            return ("err", ERR_CURVE)
    if checked:
        insub = subgroup_oracle(curve, P) if subgroup_oracle else (curve.mul(R, P) is None)
        if not insub:
            return ("err", ERR_SUBGROUP)
    return ("ok", P)


# stream formats (SerDes)
FR_LEN = 32
FQ12_LEN = 576


def fr_bytes(v):
    return (v % R).to_bytes(32, "big")


def fq12_bytes(a):
    return b"".join(c.to_bytes(48, "big") for c in F.f12_coeffs(a))
