"""Self-test of the reference model. Failing here is INCONCLUSIVE for every check, never a violation.

python3 -m model.selftest [--full]
"""
import random
import sys
import time

from .params import *
from . import fields as F
from .curves import E1, E2, FQ, FQ2, g1_gen, g2_gen, in_subgroup
from . import pairing as PA
from . import rfc9380 as H
from . import encoding as EN
from . import iso_tables as T


def _is_probable_prime(n, rng, rounds=24):
    if n < 2:
        return False
    for p in (2, 3, 5, 7, 11, 13, 17, 19, 23, 29, 31, 37):
        if n % p == 0:
            return n == p
    d, s = n - 1, 0
    while d % 2 == 0:
        d //= 2
        s += 1
    for _ in range(rounds):
        a = rng.randrange(2, n - 1)
        x = pow(a, d, n)
        if x in (1, n - 1):
            continue
        for _ in range(s - 1):
            x = x * x % n
            if x == n - 1:
                break
        else:
            return False
    return True


# ------------------------------------------------------------------ polynomial helpers (for the isogeny identity)

def _pmul(f, a, b):
    r = [f.zero] * (len(a) + len(b) - 1)
    for i, x in enumerate(a):
        for j, y in enumerate(b):
            r[i + j] = f.add(r[i + j], f.mul(x, y))
    return r


def _padd(f, a, b):
    n = max(len(a), len(b))
    a = a + [f.zero] * (n - len(a))
    b = b + [f.zero] * (n - len(b))
    return [f.add(x, y) for x, y in zip(a, b)]


def _pscale(f, a, k):
    return [f.mul(x, k) for x in a]


def _ppow(f, a, n):
    r = [f.one]
    for _ in range(n):
        r = _pmul(f, r, a)
    return r


def _ptrim(f, a):
    a = list(a)
    while a and f.is_zero(a[-1]):
        a.pop()
    return a


def isogeny_identity(f, A, B, b_target, xn, xd, yn, yd):
    """(x^3 + A x + B) * YN^2 * XD^3 == (XN^3 + b*XD^3) * YD^2 in f[x] (y^2 eliminated)."""
    g = [B, A, f.zero, f.one]
    lhs = _pmul(f, _pmul(f, g, _ppow(f, yn, 2)), _ppow(f, xd, 3))
    rhs = _pmul(f, _padd(f, _ppow(f, xn, 3), _pscale(f, _ppow(f, xd, 3), b_target)), _ppow(f, yd, 2))
    lhs, rhs = _ptrim(f, lhs), _ptrim(f, rhs)
    return len(lhs) == len(rhs) and all(f.is_zero(f.sub(x, y)) for x, y in zip(lhs, rhs))


def check(cond, what):
    if not cond:
        raise AssertionError("model self-test failed: " + what)


def run(full=False, seed=12345, verbose=False):
    rng = random.Random(seed)
    t0 = time.time()

    # parameters
    check(_is_probable_prime(Q, rng) and _is_probable_prime(R, rng), "q, r prime")
    from math import prod
    check(prod(H1_FACTORS) == H1 and prod(H2_FACTORS) == H2, "cofactor factorisations")
    check(all(_is_probable_prime(p, rng) for p in set(H1_FACTORS + H2_FACTORS)), "cofactor factors prime")

    # curve orders and generators
    g1, g2 = g1_gen(), g2_gen()
    check(E1.on_curve(g1) and E2.on_curve(g2), "generators on curve")
    check(E1.mul(R, g1) is None and E2.mul(R, g2) is None, "[r]g = O")
    P = E1.random_point(rng)
    Qp = E2.random_point(rng)
    check(E1.mul(N1, P) is None and E2.mul(N2, Qp) is None, "[h r]P = O on random points")
    check(E1.mul(R, P) is not None and E2.mul(R, Qp) is not None, "random curve points are outside the subgroup")
    check(in_subgroup(E1, E1.mul(HEFF1, P)) and in_subgroup(E2, E2.mul(HEFF2, Qp)), "h_eff clears the cofactor")

    # fields: tower vs flat, frobenius vs literal power
    def r12():
        return F.f12_from_coeffs([rng.randrange(Q) for _ in range(12)])
    a, b = r12(), r12()
    check(F.f12_mul(a, b) == F.f12_mul_fast(a, b), "tower product == flat product")
    check(F.flat_to_tower(F.tower_to_flat(a)) == a, "tower<->flat round trip")
    u = F.f12_from_coeffs([0, 1] + [0] * 10)
    check(F.f12_mul(u, u) == F.f12_from_coeffs([Q - 1] + [0] * 11), "u^2 = -1")
    v = F.f12_from_coeffs([0, 0, 1] + [0] * 9)
    w = F.f12_from_coeffs([0] * 6 + [1] + [0] * 5)
    check(F.f12_mul(w, w) == v, "w^2 = v")
    check(F.f12_mul(v, F.f12_mul(v, v)) == F.f12_from_coeffs([1, 1] + [0] * 10), "v^3 = 1+u")
    check(F.f12_frobenius(a, 1) == F.f12_pow(a, Q), "frobenius(1) == x^q")
    if full:
        check(F.f12_frobenius(a, 2) == F.f12_pow(a, Q * Q), "frobenius(2) == x^(q^2)")
        check(F.f12_frobenius(F.f12_frobenius(a, 5), 7) == a, "frobenius(5) o frobenius(7) == id")
    x2 = (rng.randrange(Q), rng.randrange(Q))
    s = F.f2_sqrt(F.f2_sqr(x2))
    check(s is not None and F.f2_sqr(s) == F.f2_sqr(x2), "Fq2 sqrt squares back")
    for c in (3, Q - 3, 5):
        s = F.f2_sqrt((c, 0))
        check(s is not None and F.f2_sqr(s) == (c % Q, 0), "Fq2 sqrt of real elements")
    nr = next(t for t in ((i, 1) for i in range(1, 50)) if F.f2_legendre(t) == -1)
    check(F.f2_sqrt(nr) is None, "Fq2 sqrt of a non-residue is None")
    xr = rng.randrange(R)
    check(F.fr_sqrt(xr * xr % R) in (xr, R - xr), "Fr sqrt")

    # pairing
    e = PA.pairing(g1, g2)
    # published e(g1, g2) (the value used in the relic cross-check of zkcrypto/pairing): first coefficient
    check(not F.f12_is_zero(F.f12_sub(e, F.F12_ONE)), "e(g1,g2) != 1")
    check(F.f12_pow(e, R) == F.F12_ONE, "e(g1,g2)^r = 1")
    if full:
        a_, b_ = rng.randrange(1, R), rng.randrange(1, R)
        e2 = PA.pairing(E1.mul(a_, g1), E2.mul(b_, g2))
        check(e2 == PA.gt_pow(e, a_ * b_), "model pairing bilinear")
    check(e == F.f12_from_coeffs(E_G1_G2), "model e(g1,g2) equals the published literal")

    # RFC 9380: expand_message_xmd appendix K.1
    dst = b"QUUX-V01-CS02-with-expander-SHA256-128"
    check(H.expand_message_xmd(b"", dst, 0x20).hex() ==
          "68a985b87eb6b46952128911f2a4412bbc302a9d759667f87f7a21d803f07235", "expand_message_xmd KAT ''")
    check(H.expand_message_xmd(b"abc", dst, 0x20).hex() ==
          "d8ccab23b5985ccea865c6c97b6e5b8350e794e603b4b97902f53a8a0d605615", "expand_message_xmd KAT 'abc'")
    # isogeny tables: rational map E' -> E of degree 11 / 3, monic denominators
    check(len(T.G1_XNUM) == 12 and len(T.G1_XDEN) == 11 and T.G1_XDEN[-1] == 1 and T.G1_YDEN[-1] == 1
          and len(T.G1_YNUM) == 16 and len(T.G1_YDEN) == 16, "G1 isogeny table shape")
    check(len(T.G2_XNUM) == 4 and len(T.G2_XDEN) == 3 and T.G2_XDEN[-1] == (1, 0) and T.G2_YDEN[-1] == (1, 0)
          and len(T.G2_YNUM) == 4 and len(T.G2_YDEN) == 4, "G2 isogeny table shape")
    check(isogeny_identity(FQ, H.ISO1.a, H.ISO1.b, 4, T.G1_XNUM, T.G1_XDEN, T.G1_YNUM, T.G1_YDEN),
          "11-isogeny polynomial identity")
    check(isogeny_identity(FQ2, H.ISO2.a, H.ISO2.b, (4, 4), T.G2_XNUM, T.G2_XDEN, T.G2_YNUM, T.G2_YDEN),
          "3-isogeny polynomial identity")
    # appendix J.9.1 / J.10.1 known answers
    d1 = b"QUUX-V01-CS02-with-BLS12381G1_XMD:SHA-256_SSWU_RO_"
    P = H.hash_to_curve(1, "sha256", b"", d1)
    check(P == (0x052926add2207b76ca4fa57a8734416c8dc95e24501772c814278700eed6d1e4e8cf62d9c09db0fac349612b759e79a1,
                0x08ba738453bfed09cb546dbb0783dbb3a5f1f566ed67bb6be0e8c67e2e81a4cc68ee29813bb7994998f3eae0c9c6a265),
          "RFC 9380 J.9.1 hash_to_curve G1 ''")
    P = H.hash_to_curve(1, "sha256", b"abc", d1)
    check(P == (0x03567bc5ef9c690c2ab2ecdf6a96ef1c139cc0b2f284dca0a9a7943388a49a3aee664ba5379a7655d3c68900be2f6903,
                0x0b9c15f3fe6e5cf4211f346271d7b01c8f3b28be689c8429c85b67af215533311f0b8dfaaa154fa6b88176c229f2885d),
          "RFC 9380 J.9.1 hash_to_curve G1 'abc'")
    d2 = b"QUUX-V01-CS02-with-BLS12381G2_XMD:SHA-256_SSWU_RO_"
    P = H.hash_to_curve(2, "sha256", b"", d2)
    check(P == ((0x0141ebfbdca40eb85b87142e130ab689c673cf60f1a3e98d69335266f30d9b8d4ac44c1038e9dcdd5393faf5c41fb78a,
                 0x05cb8437535e20ecffaef7752baddf98034139c38452458baeefab379ba13dff5bf5dd71b72418717047f5b0f37da03d),
                (0x0503921d7f6a12805e72940b963c0cf3471c7b2a524950ca195d11062ee75ec076daf2d4bc358c4b190c0c98064fdd92,
                 0x12424ac32561493f3fe3c260708a12b7c620e7be00099a974e259ddc7d1f6395c3c811cdd19f1e8dbf3e9ecfdcbab8d6)),
          "RFC 9380 J.10.1 hash_to_curve G2 ''")

    # encoding round trip in the model
    for g, curve, gen in ((1, E1, g1), (2, E2, g2)):
        for comp in (True, False):
            for pt in (None, gen, curve.neg(gen)):
                bts = EN.encode(g, pt, comp)
                check(EN.decode(g, bts, comp) == ("ok", pt), "model encode/decode round trip")
    if verbose:
        print("model self-test ok (%.2fs, full=%s)" % (time.time() - t0, full))
    return True


# e(g1, g2) as published with the original pairing library (tower order c0.c0.c0 ... c1.c2.c1)
E_G1_G2 = None


def _load_literal():
    global E_G1_G2
    from . import egg
    E_G1_G2 = egg.E_G1_G2


_load_literal()

if __name__ == "__main__":
    run(full="--full" in sys.argv, verbose=True)
