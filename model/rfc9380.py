"""RFC 9380 for the BLS12-381 suites, written from the RFC text over hashlib."""
import hashlib
from .params import Q, R, HEFF1, HEFF2
from . import fields as F
from .curves import Curve, FQ, FQ2, E1, E2
from . import iso_tables as T

# --------------------------------------------------------------- expand_message (section 5.3)

HASHES = {   # name -> (constructor, output size b, input block size s)
    "sha256": (hashlib.sha256, 32, 64),
    "sha512": (hashlib.sha512, 64, 128),
    "sha224": (hashlib.sha224, 28, 64),
    "sha384": (hashlib.sha384, 48, 128),
    "sha512_224": (lambda d=b"": hashlib.new("sha512_224", d), 28, 128),
    "sha512_256": (lambda d=b"": hashlib.new("sha512_256", d), 32, 128),
}


def expand_message_xmd(msg, dst, len_in_bytes, h="sha256"):
    H, b_in_bytes, s_in_bytes = HASHES[h]
    ell = -(-len_in_bytes // b_in_bytes)
    if ell > 255 or len_in_bytes > 65535 or len(dst) > 255:
        raise ValueError("abort")
    dst_prime = dst + bytes([len(dst)])
    z_pad = bytes(s_in_bytes)
    l_i_b_str = len_in_bytes.to_bytes(2, "big")
    b0 = H(z_pad + msg + l_i_b_str + b"\x00" + dst_prime).digest()
    b = [H(b0 + b"\x01" + dst_prime).digest()]
    for i in range(2, ell + 1):
        x = bytes(p ^ q for p, q in zip(b0, b[-1]))
        b.append(H(x + bytes([i]) + dst_prime).digest())
    return b"".join(b)[:len_in_bytes]


def expand_message_xof(msg, dst, len_in_bytes, h="shake128"):
    if len_in_bytes > 65535 or len(dst) > 255:
        raise ValueError("abort")
    H = {"shake128": hashlib.shake_128, "shake256": hashlib.shake_256}[h]
    dst_prime = dst + bytes([len(dst)])
    return H(msg + len_in_bytes.to_bytes(2, "big") + dst_prime).digest(len_in_bytes)


def expand_message(x, msg, dst, n):
    if x in HASHES:
        return expand_message_xmd(msg, dst, n, x)
    return expand_message_xof(msg, dst, n, x)


# --------------------------------------------------------------- hash_to_field (section 5.2)

L_FQ = 64
L_FR = 48


def hash_to_field(x, msg, dst, count, field):
    """field in {'fq','fr','fq2'}; returns list of ints / pairs."""
    m, L, p = {"fq": (1, L_FQ, Q), "fr": (1, L_FR, R), "fq2": (2, L_FQ, Q)}[field]
    ub = expand_message(x, msg, dst, count * m * L)
    out = []
    for i in range(count):
        e = []
        for j in range(m):
            off = L * (j + i * m)
            e.append(int.from_bytes(ub[off:off + L], "big") % p)
        out.append(e[0] if m == 1 else tuple(e))
    return out


# --------------------------------------------------------------- simplified SWU (section 6.6.2)

ISO1 = Curve(FQ, T.G1_ELLP_A, T.G1_ELLP_B, "E1'")
ISO2 = Curve(FQ2, (0, 240), (1012, 1012), "E2'")
Z1 = 11
Z2 = ((-2) % Q, (-1) % Q)

# RFC 8.8.1 literals for A', B' of the curve 11-isogenous to E (cross-check of the frozen copy)
assert T.G1_ELLP_A == 0x144698a3b8e9433d693a02c96d4982b0ea985383ee66a8d8e8981aefd881ac98936f8da0e0f97f5cf428082d584c1d
assert T.G1_ELLP_B == 0x12e2908d11688030018b12e8753eee3b2016c1f0f24f4070a0b9c14fcef35ef55a23215a316ceaa5d1cc48e98e172be0


def sswu(curve, Z, u):
    """map_to_curve_simple_swu, straight-line version of the RFC; returns (point, info)."""
    f = curve.f
    A, B = curve.a, curve.b
    u2 = f.mul(u, u)
    zu2 = f.mul(Z, u2)
    den = f.add(f.mul(zu2, zu2), zu2)
    tv1 = f.zero if f.is_zero(den) else f.inv(den)           # inv0
    exceptional = f.is_zero(tv1)
    if exceptional:
        x1 = f.mul(B, f.inv(f.mul(Z, A)))
    else:
        x1 = f.mul(f.mul(f.neg(B), f.inv(A)), f.add(f.one, tv1))
    gx1 = curve.rhs(x1)
    x2 = f.mul(zu2, x1)
    gx2 = curve.rhs(x2)
    y1 = f.sqrt(gx1)
    if y1 is not None:
        x, y, which = x1, y1, 1
    else:
        y2 = f.sqrt(gx2)
        assert y2 is not None, "one of gx1, gx2 must be square"
        x, y, which = x2, y2, 2
    if f.sgn0(u) != f.sgn0(y):
        y = f.neg(y)
    return (f.norm(x), f.norm(y)), {"which": which, "exceptional": exceptional, "gx1": gx1, "gx2": gx2}


def sswu1(u):
    return sswu(ISO1, Z1, u % Q)[0]


def sswu2(u):
    return sswu(ISO2, Z2, (u[0] % Q, u[1] % Q))[0]


# --------------------------------------------------------------- isogenies (appendix E)

def _poly_eval(f, coeffs, x):
    r = f.zero
    for c in reversed(coeffs):
        r = f.add(f.mul(r, x), c)
    return r


ISO_TABLES = {
    1: (FQ, T.G1_XNUM, T.G1_XDEN, T.G1_YNUM, T.G1_YDEN),
    2: (FQ2, T.G2_XNUM, T.G2_XDEN, T.G2_YNUM, T.G2_YDEN),
}


def iso_map(g, P, tables=None):
    """Rational map E' -> E; identity and kernel points (a vanishing denominator) map to the identity."""
    if P is None:
        return None
    f, xn, xd, yn, yd = tables or ISO_TABLES[g]
    x, y = P
    vxd = _poly_eval(f, xd, x)
    vyd = _poly_eval(f, yd, x)
    if f.is_zero(vxd) or f.is_zero(vyd):
        return None
    X = f.mul(_poly_eval(f, xn, x), f.inv(vxd))
    Y = f.mul(y, f.mul(_poly_eval(f, yn, x), f.inv(vyd)))
    return (f.norm(X), f.norm(Y))


# --------------------------------------------------------------- composition (sections 3, 6.6.3, 7)

def clear_cofactor(g, P):
    return (E1 if g == 1 else E2).mul(HEFF1 if g == 1 else HEFF2, P)


def map_to_curve(g, u):
    """map_to_curve for the SSWU_RO_/NU_ suites *before* cofactor clearing: iso(sswu(u))."""
    return iso_map(g, sswu1(u) if g == 1 else sswu2(u))


def map1(g, u):
    return clear_cofactor(g, map_to_curve(g, u))


def map2(g, u0, u1):
    E = E1 if g == 1 else E2
    return clear_cofactor(g, E.add(map_to_curve(g, u0), map_to_curve(g, u1)))


def hash_to_curve(g, x, msg, dst):
    u = hash_to_field(x, msg, dst, 2, "fq" if g == 1 else "fq2")
    return map2(g, u[0], u[1])


def encode_to_curve(g, x, msg, dst):
    u = hash_to_field(x, msg, dst, 1, "fq" if g == 1 else "fq2")
    return map1(g, u[0])
