"""Affine chord-and-tangent group law over Fq and Fq2 for y^2 = x^3 + a x + b.

A point is None (identity) or a tuple (x, y). One modular inversion per step.
"""
from .params import Q, R, H1, H2, N1, N2
from . import fields as F


class FieldOps:
    pass


class _Fq(FieldOps):
    name = "Fq"
    zero = 0
    one = 1

    @staticmethod
    def add(a, b):
        return (a + b) % Q

    @staticmethod
    def sub(a, b):
        return (a - b) % Q

    @staticmethod
    def mul(a, b):
        return a * b % Q

    @staticmethod
    def neg(a):
        return (-a) % Q

    @staticmethod
    def inv(a):
        return pow(a, -1, Q)

    @staticmethod
    def is_zero(a):
        return a % Q == 0

    @staticmethod
    def norm(a):
        return a % Q

    sqrt = staticmethod(F.fq_sqrt)

    @staticmethod
    def small(k):
        return k % Q

    @staticmethod
    def sgn0(a):
        return (a % Q) & 1

    @staticmethod
    def key(a):
        return a % Q

    @staticmethod
    def rand(rng):
        return rng.randrange(Q)


class _Fq2(FieldOps):
    name = "Fq2"
    zero = F.F2_ZERO
    one = F.F2_ONE
    add = staticmethod(F.f2_add)
    sub = staticmethod(F.f2_sub)
    mul = staticmethod(F.f2_mul)
    neg = staticmethod(F.f2_neg)
    inv = staticmethod(F.f2_inv)
    is_zero = staticmethod(F.f2_is_zero)
    sqrt = staticmethod(F.f2_sqrt)
    sgn0 = staticmethod(F.f2_sgn0)
    key = staticmethod(F.f2_cmp_key)

    @staticmethod
    def norm(a):
        return (a[0] % Q, a[1] % Q)

    @staticmethod
    def small(k):
        return (k % Q, 0)

    @staticmethod
    def rand(rng):
        return (rng.randrange(Q), rng.randrange(Q))


FQ = _Fq()
FQ2 = _Fq2()


class Curve:
    """y^2 = x^3 + a x + b over the field `f`."""

    def __init__(self, f, a, b, name):
        self.f, self.a, self.b, self.name = f, a, b, name

    def rhs(self, x):
        f = self.f
        return f.add(f.add(f.mul(f.mul(x, x), x), f.mul(self.a, x)), self.b)

    def on_curve(self, P):
        if P is None:
            return True
        f = self.f
        return f.is_zero(f.sub(f.mul(P[1], P[1]), self.rhs(P[0])))

    def neg(self, P):
        if P is None:
            return None
        return (P[0], self.f.neg(P[1]))

    def add(self, P, Qp):
        f = self.f
        if P is None:
            return Qp
        if Qp is None:
            return P
        x1, y1 = P
        x2, y2 = Qp
        if f.is_zero(f.sub(x1, x2)):
            if f.is_zero(f.add(y1, y2)):
                return None  # P + (-P), includes 2-torsion doubling
            # doubling
            num = f.add(f.mul(f.small(3), f.mul(x1, x1)), self.a)
            lam = f.mul(num, f.inv(f.add(y1, y1)))
        else:
            lam = f.mul(f.sub(y2, y1), f.inv(f.sub(x2, x1)))
        x3 = f.sub(f.sub(f.mul(lam, lam), x1), x2)
        y3 = f.sub(f.mul(lam, f.sub(x1, x3)), y1)
        return (f.norm(x3), f.norm(y3))

    def dbl(self, P):
        return self.add(P, P)

    def sub(self, P, Qp):
        return self.add(P, self.neg(Qp))

    def mul(self, k, P):
        if k < 0:
            return self.mul(-k, self.neg(P))
        if P is None or k == 0:
            return None
        r = None
        for bit in bin(k)[2:]:
            r = self.add(r, r)
            if bit == "1":
                r = self.add(r, P)
        return r

    def eq(self, P, Qp):
        if P is None or Qp is None:
            return P is None and Qp is None
        f = self.f
        return f.is_zero(f.sub(P[0], Qp[0])) and f.is_zero(f.sub(P[1], Qp[1]))

    def lift_x(self, x):
        """Some point with this x or None."""
        y = self.f.sqrt(self.rhs(x))
        if y is None:
            return None
        return (self.f.norm(x), self.f.norm(y))

    def random_point(self, rng):
        while True:
            x = self.f.rand(rng)
            P = self.lift_x(x)
            if P is not None:
                if rng.getrandbits(1):
                    P = self.neg(P)
                return P

    def from_jacobian(self, X, Y, Z):
        """(X, Y, Z) ~ (X/Z^2, Y/Z^3); Z = 0 is the identity."""
        f = self.f
        if f.is_zero(Z):
            return None
        zi = f.inv(Z)
        zi2 = f.mul(zi, zi)
        return (f.norm(f.mul(X, zi2)), f.norm(f.mul(Y, f.mul(zi2, zi))))


E1 = Curve(FQ, 0, 4, "E")
E2 = Curve(FQ2, F.F2_ZERO, (4, 4), "E'")


def _find_generator(curve, cofactor, key):
    """README recipe: smallest x with a point, smaller y, times the cofactor."""
    f = curve.f
    x = 0
    while True:
        cands = [f.small(x)] if f is FQ else None
        if f is FQ:
            P = curve.lift_x(x)
            if P is not None:
                P2 = curve.neg(P)
                P = P if key(P[1]) < key(P2[1]) else P2
                G = curve.mul(cofactor, P)
                if G is not None:
                    return G
        x += 1


def _find_generator_g2():
    # lexicographically smallest x = c0 + c1 u with c1 most significant: c1 = 0, c0 = 0,1,2,... then c1 = 1 ...
    c1 = 0
    while True:
        for c0 in range(0, 64):
            P = E2.lift_x((c0, c1))
            if P is not None:
                P2 = E2.neg(P)
                P = P if F.f2_cmp_key(P[1]) < F.f2_cmp_key(P2[1]) else P2
                G = E2.mul(H2, P)
                if G is not None:
                    return G
        c1 += 1


_GEN = {}


def g1_gen():
    if 1 not in _GEN:
        _GEN[1] = _find_generator(E1, H1, lambda y: y % Q)
    return _GEN[1]


def g2_gen():
    if 2 not in _GEN:
        _GEN[2] = _find_generator_g2()
    return _GEN[2]


def in_subgroup(curve, P):
    """identity, or on the curve and annihilated by r."""
    if P is None:
        return True
    return curve.on_curve(P) and curve.mul(R, P) is None


GROUPS = {1: (E1, H1, N1), 2: (E2, H2, N2)}
