"""BLS12-381 parameters, derived from the curve parameter x (nothing imported from /repo)."""

X = -0xd201000000010000
R = X**4 - X**2 + 1
assert ((X - 1) ** 2 * R) % 3 == 0
Q = ((X - 1) ** 2 * R) // 3 + X
H1 = (X - 1) ** 2 // 3
assert (X - 1) ** 2 % 3 == 0
_h2n = X**8 - 4 * X**7 + 5 * X**6 - 4 * X**4 + 6 * X**3 - 4 * X**2 - 4 * X + 13
assert _h2n % 9 == 0
H2 = _h2n // 9
HEFF1 = 1 - X
HEFF2 = 3 * (X * X - 1) * H2

assert Q.bit_length() == 381 and R.bit_length() == 255
assert Q % 4 == 3 and Q % 3 == 1
assert HEFF1 == 0xd201000000010001
assert HEFF2 == int(
    "bc69f08f2ee75b3584c6a0ea91b352888e2a8e9145ad7689986ff031508ffe1329c2f178731db956"
    "d82bf015d1212b02ec0ec69d7477c1ae954cbc06689f6a359894c0adebbf6b4e8020005aaa95551", 16)
# decimal literals as they appear in public descriptions of the curve
assert Q == 4002409555221667393417789825735904156556882819939007885332058136124031650490837864442687629129015664037894272559787
assert R == 52435875175126190479447740508185965837690552500527637822603658699938581184513

# group orders: #E(Fq) = H1*R, #E'(Fq2) = H2*R
N1 = H1 * R
N2 = H2 * R

# Montgomery radices (C08 boundary values)
MONT_Q = (1 << 384) % Q
MONT_R = (1 << 256) % R

# prime factorisations of the cofactors (verified in selftest by multiplication)
H1_FACTORS = [3, 11, 11, 10177, 10177, 859267, 859267, 52437899, 52437899]
H2_FACTORS = [13, 13, 23, 23, 2713, 11953, 262069,
              402096035359507321594726366720466575392706800671181159425656785868777272553337714697862511267018014931937703598282857976535744623203249]

# final exponent 3(q^12-1)/r
assert (Q**12 - 1) % R == 0
FINAL_EXP = 3 * ((Q**12 - 1) // R)
