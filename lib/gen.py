"""Operand generators: boundary sets, structured scalars, exceptional points (constructed, not found by luck)."""
import random

from model.params import Q, R, H1, H2, N1, N2, H1_FACTORS, H2_FACTORS, MONT_Q, MONT_R
from model import fields as F
from model.curves import E1, E2, FQ, FQ2, g1_gen, g2_gen


def rng_for(seed, *tags):
    return random.Random("%s/%s" % (seed, "/".join(map(str, tags))))


def field_boundary(m, bits):
    """Boundary values of Z/m (all reduced)."""
    mont = (1 << (384 if m == Q else 256)) % m
    vals = {0, 1, 2, 3, m - 1, m - 2, m - 3, (m - 1) // 2, (m + 1) // 2, (m - 1) // 2 - 1,
            mont, mont * mont % m, (mont - 1) % m, (mont + 1) % m, (-mont) % m, pow(mont, -1, m)}
    for k in range(1, bits // 64 + 1):
        for d in (-1, 0, 1):
            v = (1 << (64 * k)) + d
            if 0 <= v < m:
                vals.add(v)
            vals.add(v % m)
    for k in range(1, bits // 64 + 2):
        v = (1 << (64 * k)) - 1  # all-ones limbs
        vals.add(v % m)
    vals.add((1 << (bits - 1)) % m)
    vals.add(((1 << (bits - 1)) - 1) % m)
    # alternating patterns
    vals.add(int("aa" * (bits // 8), 16) % m)
    vals.add(int("55" * (bits // 8), 16) % m)
    vals.update(mont_domain_boundary(m))
    return sorted(vals)


def limb_patterns(width):
    """raw width-bit values built from limb-boundary patterns (single limbs, all-ones limbs, carry chains)"""
    nl = width // 64
    M = (1 << 64) - 1
    pats = set()
    for i in range(nl):
        pats.add(1 << (64 * i))                      # only limb i non-zero (value 1)
        pats.add(M << (64 * i))                      # limb i all ones
        pats.add((1 << 63) << (64 * i))              # top bit of limb i
        pats.add(((1 << 63) + 1) << (64 * i))
        if i + 1 < nl:
            pats.add(((1 << 63) << (64 * i)) | (M << (64 * (i + 1))))                     # carry into an all-ones limb
            pats.add(((1 << 63) << (64 * i)) | (M << (64 * (i + 1))) | (1 << (64 * (nl - 1))))
            pats.add((M << (64 * i)) | (M << (64 * (i + 1))))
            pats.add((1 << (64 * i)) | (M << (64 * (i + 1))))
        if i + 2 < nl:
            pats.add(((1 << 63) << (64 * i)) | (M << (64 * (i + 1))) | (M << (64 * (i + 2))))
            pats.add(((1 << 63) << (64 * i)) | (M << (64 * (i + 1))) | (1 << (64 * (i + 2))) | (1 << (64 * (nl - 1))))
    pats.add((1 << (64 * (nl - 1))) - 1)             # all limbs but the top one all ones
    return pats


def limb_compare_patterns(m, width, rng=None, limit=None):
    """Raw width-bit values whose 64-bit limbs stand in every combination of (<, =, >) to the limbs of m: the inputs
    that decide a limb-wise lexicographic range check (ties on the leading limbs, a smaller limb above larger ones)."""
    import itertools
    nl = width // 64
    M = (1 << 64) - 1
    ml = [(m >> (64 * i)) & M for i in range(nl)]
    out = set()
    pats = list(itertools.product((-1, 0, 1), repeat=nl))
    if limit and len(pats) > limit:
        r = rng or random.Random(0)
        keep = [p for p in pats if sum(1 for x in p if x) <= 2 or all(x == p[0] for x in p)]
        pats = keep + r.sample(pats, limit)
    for p in pats:
        for far in (False, True):
            v, ok = 0, True
            for i, rel in enumerate(p):
                if rel == 0:
                    l = ml[i]
                elif rel < 0:
                    if ml[i] == 0:
                        ok = False
                        break
                    l = 0 if far else ml[i] - 1
                else:
                    if ml[i] == M:
                        ok = False
                        break
                    l = M if far else ml[i] + 1
                v |= l << (64 * i)
            if ok:
                out.add(v)
    return sorted(out)


def mont_domain_boundary(m):
    """Field elements whose INTERNAL (Montgomery) representation is a limb-boundary pattern: a = v * R^-1 mod m for
    v in {single non-zero limb, all-ones limbs, 2^63 in a limb followed by an all-ones limb (carry chains), ...}.
    The library's arithmetic acts on v, so these are the values that exercise its carry / zero-test / limb logic."""
    width = 384 if m == Q else 256
    rinv = pow(1 << width, -1, m)
    pats = limb_patterns(width)
    pats.add(m - 1)
    pats.add(m >> 1)
    out = set()
    for v in pats:
        if 0 <= v < m:
            out.add(v * rinv % m)
    return out


def repr_boundary(m, width):
    """Boundary values of the raw width-bit representation (may be >= m)."""
    top = (1 << width) - 1
    vals = {0, 1, 2, m - 1, m, m + 1, m - 2, m + 2, top, top - 1, 2 * m % (top + 1), (m >> 1), (m << 1) & top}
    for k in range(1, width // 64 + 1):
        for d in (-1, 0, 1):
            v = (1 << (64 * k)) + d
            if 0 <= v <= top:
                vals.add(v)
    for k in range(width):
        if k % 37 == 0 or k % 64 in (0, 63):
            vals.add(1 << k)
    vals.add(1 << (m.bit_length() - 1))
    vals.add((1 << m.bit_length()) - 1)
    vals.update(v for v in limb_patterns(width) if v <= top)
    if (1 << m.bit_length()) <= top:
        vals.add(1 << m.bit_length())
    return sorted(vals)


_MONT_SETS = {}


def _mont_set(m):
    if m not in _MONT_SETS:
        _MONT_SETS[m] = frozenset(mont_domain_boundary(m))
    return _MONT_SETS[m]


def fclass(v, m):
    """Operand class of a field value, re-derived by the monitor from the logged integer."""
    if v == 0:
        return "0"
    if v == 1:
        return "1"
    if v == m - 1:
        return "-1"
    if v in ((m - 1) // 2, (m + 1) // 2):
        return "half"
    mont = (1 << (384 if m == Q else 256)) % m
    if v in (mont, mont * mont % m, (mont - 1) % m, (mont + 1) % m, (-mont) % m):
        return "mont"
    if v in _mont_set(m):
        return "mont-limb"
    if v < (1 << 16):
        return "small"
    if m - v < (1 << 16):
        return "top"
    low = v & ((1 << 64) - 1)
    if low in (0, 1, (1 << 64) - 1) or (v + 1) & v == 0:
        return "limb"
    return "gen"


def structured_scalars(rng, full256=False, extra_random=0):
    """The structured scalar set of DESIGN section 4.2."""
    top = 256 if full256 else 255
    s = {0, 1, 2, 3, R - 1, R, R + 1, R - 2, (1 << 255) - 1, (1 << 254), (1 << 254) - 1, (R - 1) // 2, (R + 1) // 2}
    if full256:
        s |= {(1 << 255), (1 << 255) + 1, (1 << 256) - 1, (1 << 256) - 2, 2 * R, 2 * R + 1, (1 << 256) - R}
    for i in range(top):
        s.add(1 << i)
    for b in (32, 64, 96, 128, 160, 192, 224):
        for lo in range(1, 6):
            for hi in range(0, 5):
                v = ((1 << (lo + hi)) - 1) << (b - lo)
                if v < (1 << top):
                    s.add(v)
        s.add((1 << b) - 1)
        s.add((1 << b) + 1)
    for w in range(4):
        s.add(((1 << 64) - 1) << (64 * w) & ((1 << top) - 1))
    # scalars one of whose binary prefixes is congruent to 0 or +-1 mod r: a left-to-right ladder then meets the
    # identity / the base point / its inverse in the accumulator (equal-point and inverse-point additions)
    for pre in (R - 2, R - 1, R, R + 1, R + 2, R + 3, (R - 1) // 2, (R + 1) // 2, (R + 3) // 2):
        for j in (1, 2, 3):
            for t in range(1 << j):
                s.add((pre << j) + t)
    # long carry runs for wNAF
    s.add(int("7" * 63, 16))
    s.add(int("f" * 63, 16) >> 1)
    s.add(int("5" * 63, 16))
    s.add(int("a" * 63, 16) >> 1)
    s.add(int("3" * 63, 16))
    s.add(int("e" * 63, 16) >> 1)
    # a small low limb plus a single higher limb (a scalar that LOOKS like 0, 1, 2 when only some limbs are inspected)
    for lo in (0, 1, 2, 3):
        for limb in (1, 2, 3):
            for j in (1, 2, (1 << 63) - 1 if limb == 3 and not full256 else (1 << 64) - 1, rng.getrandbits(62) | 1):
                s.add(lo + (j << (64 * limb)))
    s |= set(ladder_coincidences())
    for _ in range(extra_random):
        s.add(rng.getrandbits(top))
        s.add(rng.randrange(R))
        s.add(rng.getrandbits(rng.randrange(1, top + 1)))
    return sorted(x for x in s if 0 <= x < (1 << top))


def comb_coincidences(cols, width):
    """Scalars for which a left-to-right comb ladder (cols columns of width bits: acc = 2*acc + T[bits of the row]) has
    accumulator == +-addend (mod r) at some row, i.e. an equal-operand (doubling) or inverse-operand addition inside
    the ladder. cols=1 is plain double-and-add, (4,64) the 3-entry and (8,32) the 256-entry precomputation."""
    out = set()
    mask = (1 << width) - 1
    for b in range(1, 1 << cols):
        tb = sum(1 << (width * i) for i in range(cols) if b >> i & 1)
        for m in range(0, 5):
            for sign in (1, -1):
                x = m * R + sign * tb
                if x <= 0 or x & 1:
                    continue
                a_ = x >> 1
                if a_ >> (cols * width):
                    continue
                a = [(a_ >> (width * i)) & mask for i in range(cols)]
                for j in range(0, width - 1):
                    if any(v >> (width - 1 - j) for v in a):
                        break
                    k = sum(((a[i] << (j + 1)) | ((b >> i & 1) << j)) << (width * i) for i in range(cols))
                    out.add(k)
                    out.add(k | sum(((1 << j) - 1) << (width * i) for i in range(cols)))
    return sorted(out)


def wnaf_coincidences(w):
    """Scalars whose (right-to-left, signed odd digit) windowed recoding makes the left-to-right evaluation add a table
    entry equal to the accumulator: k = m*r + 2*d with d the lowest digit of k itself; both digit-range conventions."""
    out = set()
    for bits in (w, w + 1):
        for m in (1, 2, 3):
            d = (-m * R) % (1 << bits)
            if d >= 1 << (bits - 1):
                d -= 1 << bits
            if d % 2 == 0:
                continue
            k = m * R + 2 * d
            for j in (0, 1, 7):
                if 0 < (k << j) < (1 << 255):
                    out.add(k << j)
    return sorted(out)


_LADDER = None


def ladder_coincidences():
    global _LADDER
    if _LADDER is None:
        s = set(comb_coincidences(1, 256)[:40]) | set(comb_coincidences(4, 64)) | set(comb_coincidences(8, 32))
        for w in range(2, 23):
            s |= set(wnaf_coincidences(w))
        _LADDER = sorted(s)
    return _LADDER


def kclass(k):
    """Scalar class, re-derived by the monitor."""
    if k in (0, 1, 2):
        return "k%d" % k
    if k in (R - 1, R, R + 1):
        return "k~r"
    if k >= (1 << 255):
        return "k>=2^255"
    if k > R:
        return "k>r"
    if k & (k - 1) == 0:
        return "k=2^i"
    bl = k.bit_length()
    if (k + 1) & k == 0:
        return "k=2^i-1"
    # bits straddling a 32/64-bit boundary only
    low = (k & -k).bit_length() - 1
    if bl - low <= 10 and (low // 32) != ((bl - 1) // 32):
        return "k:straddle"
    if bl <= 34:
        return "k:short"
    if bl <= 130:
        return "k:mid"
    return "k:gen"


# ---------------------------------------------------------------------------- points

_SO_CACHE = {}


def _small_order_base(g):
    """One point of every prime order dividing the cofactor, [N/l]P for a fixed seeded P; cached on disk
    (pure function of the model, so the cache can never change a verdict)."""
    if g in _SO_CACHE:
        return _SO_CACHE[g]
    import json, os
    path = "/verif/.build/cache/small_order_g%d.json" % g
    c, h, n = (E1, H1, N1) if g == 1 else (E2, H2, N2)
    primes = sorted(set(H1_FACTORS if g == 1 else H2_FACTORS))
    out = None
    if os.path.exists(path):
        try:
            raw = json.load(open(path))
            out = {int(l): (tuple(P[0]), tuple(P[1])) if g == 2 else (P[0], P[1]) for l, P in raw.items()}
            if sorted(out) != primes or not all(c.on_curve(P) for P in out.values()):
                out = None
        except Exception:
            out = None
    if out is None:
        rng = random.Random("small-order-%d" % g)
        out = {}
        for l in primes:
            e = 0
            while n % (l ** (e + 1)) == 0:
                e += 1
            while l not in out:
                # project into the l-Sylow subgroup, then climb down to an element of order exactly l
                P = c.mul(n // (l ** e), c.random_point(rng))
                while P is not None:
                    nxt = c.mul(l, P)
                    if nxt is None:
                        out[l] = P
                        break
                    P = nxt
        os.makedirs(os.path.dirname(path), exist_ok=True)
        tmp = path + ".%d.tmp" % os.getpid()
        json.dump({str(l): P for l, P in out.items()}, open(tmp, "w"))
        os.replace(tmp, path)
    _SO_CACHE[g] = out
    return out


def small_order_points(g, rng, include_big=False):
    """Points of every prime order l dividing the cofactor: [k][N/l]P with a fresh random k per call."""
    c = E1 if g == 1 else E2
    out = {}
    for l, P in _small_order_base(g).items():
        if l >= (1 << 64) and not include_big:
            continue
        k = rng.randrange(1, min(l, 1 << 20))
        out[l] = c.mul(k, P)
        assert out[l] is not None
    return out


def order_rl_point(g, rng, l):
    """A point of order r*l: subgroup point + point of order l."""
    c = E1 if g == 1 else E2
    return c.add(subgroup_point(g, rng), small_order_points(g, rng)[l])


def subgroup_point(g, rng):
    k = rng.randrange(1, R)
    return (E1 if g == 1 else E2).mul(k, g1_gen() if g == 1 else g2_gen())


def rescale(g, P, lam):
    """Jacobian representative (lam^2 x, lam^3 y, lam) of the affine model point P."""
    f = FQ if g == 1 else FQ2
    l2 = f.mul(lam, lam)
    return (f.norm(f.mul(P[0], l2)), f.norm(f.mul(P[1], f.mul(l2, lam))), f.norm(lam))


def special_lambdas(g, rng):
    """scaling factors for Jacobian representatives that have a structure of their own: -1, small, and for Fq2 the
    purely imaginary and purely real ones (a zero component in Z)"""
    f = FQ if g == 1 else FQ2
    out = [f.neg(f.one), f.small(2)]
    if g == 2:
        out += [(0, 1), (0, rng.randrange(1, Q)), (rng.randrange(2, Q), 0), (0, Q - 1)]
    # roots of unity of small order (Z^2, Z^3, Z^4, Z^6 or Z^8 equal to 1 without Z being 1)
    k = 2
    while pow(k, (Q - 1) // 3, Q) == 1:
        k += 1
    om = pow(k, (Q - 1) // 3, Q)
    for w in (om, om * om % Q, (-om) % Q):
        out.append(w if g == 1 else (w, 0))
    if g == 2:
        z8 = F.f2_sqrt((0, 1))
        out += [z8, F.f2_mul(z8, (om, 0))]
    return out


def identity_rep(g, t):
    f = FQ if g == 1 else FQ2
    t2 = f.mul(t, t)
    return (f.norm(t2), f.norm(f.mul(t2, t)), f.zero)


def rand_fe(g, rng, nonzero=True):
    f = FQ if g == 1 else FQ2
    while True:
        x = f.rand(rng)
        if not nonzero or not f.is_zero(x):
            return x


def point_class(g, P, cache={}):
    """Order class of a model point: 'O', 'r' (subgroup), 'l<prime>' (small prime order), 'full' (other)."""
    if P is None:
        return "O"
    key = (g, P)
    if key in cache:
        return cache[key]
    c = E1 if g == 1 else E2
    if c.mul(R, P) is None:
        cl = "r"
    else:
        cl = "full"
        for l in sorted(set(H1_FACTORS if g == 1 else H2_FACTORS)):
            if l < (1 << 64) and c.mul(l, P) is None:
                cl = "ord%d" % l
                break
    if len(cache) > 50000:
        cache.clear()
    cache[key] = cl
    return cl


# ---------------------------------------------------------------------------- polynomial roots over Fq

def _ptrim(a):
    while a and a[-1] % Q == 0:
        a.pop()
    return a


def _pmod(a, m):
    a = [x % Q for x in a]
    dm = len(m) - 1
    inv = pow(m[-1], -1, Q)
    while len(a) - 1 >= dm and a:
        c = a[-1] * inv % Q
        if c:
            off = len(a) - 1 - dm
            for i in range(dm + 1):
                a[off + i] = (a[off + i] - c * m[i]) % Q
        a.pop()
    return _ptrim(a)


def _pmul(a, b):
    if not a or not b:
        return []
    r = [0] * (len(a) + len(b) - 1)
    for i, x in enumerate(a):
        if x:
            for j, y in enumerate(b):
                r[i + j] = (r[i + j] + x * y) % Q
    return r


def _ppowmod(base, e, m):
    r = [1]
    for bit in bin(e)[2:]:
        r = _pmod(_pmul(r, r), m)
        if bit == "1":
            r = _pmod(_pmul(r, base), m)
    return r


def _pgcd(a, b):
    a, b = _ptrim(list(a)), _ptrim(list(b))
    while b:
        a, b = b, _pmod(a, b)
    if a:
        inv = pow(a[-1], -1, Q)
        a = [x * inv % Q for x in a]
    return a


def poly_roots_fq(coeffs, rng=None):
    """all roots in Fq of the polynomial sum coeffs[i] x^i (Cantor-Zassenhaus on the split part)"""
    rng = rng or random.Random(7)
    m = _ptrim([c % Q for c in coeffs])
    xq = _ppowmod([0, 1], Q, m)
    h = list(xq) + [0] * max(0, 2 - len(xq))
    h[1] = (h[1] - 1) % Q
    g = _pgcd(m, _ptrim(h))
    roots = []

    def split(p):
        if len(p) <= 1:
            return
        if len(p) == 2:
            roots.append((-p[0]) * pow(p[1], -1, Q) % Q)
            return
        while True:
            a = rng.randrange(Q)
            t = _ppowmod([a, 1], (Q - 1) // 2, p)
            t = list(t) + [0] * max(0, 1 - len(t))
            t[0] = (t[0] - 1) % Q
            d = _pgcd(p, _ptrim(t))
            if 1 < len(d) < len(p):
                split(d)
                # quotient p / d
                qd, rem = [], list(p)
                while len(rem) >= len(d):
                    c = rem[-1] * pow(d[-1], -1, Q) % Q
                    qd.insert(0, c)
                    off = len(rem) - len(d)
                    for i in range(len(d)):
                        rem[off + i] = (rem[off + i] - c * d[i]) % Q
                    rem.pop()
                split(_ptrim(qd))
                return
    split(g)
    return sorted(set(roots))


_PREFIX_PTS = {}


def prefix_points(g):
    """Subgroup points one of whose coordinates (as a 48-byte big-endian string) starts with the leading 16 bits of the
    modulus or with 16 zero bits, or whose y-coordinate (a component of it) starts with the leading 16 bits of (q-1)/2,
    the threshold of the sort flag; found once by search (tools/find_prefix_points.py), recomputed here as [k]g and the
    class re-derived from the coordinates. Returns [(tag, point)]."""
    if g not in _PREFIX_PTS:
        import json, os
        d = json.load(open(os.path.join(os.path.dirname(os.path.abspath(__file__)), "data", "prefix_points.json")))[str(g)]
        c = E1 if g == 1 else E2
        gen = g1_gen() if g == 1 else g2_gen()
        out = []
        for ks in d.values():
            for k in ks:
                P = c.mul(k, gen)
                comps = [P[0], P[1]] if g == 1 else [P[0][1], P[0][0], P[1][1], P[1][0]]
                half = ((Q - 1) // 2) >> 368      # leading 16 bits of the sort-flag threshold (y coordinates only)
                ny = 1 if g == 1 else 2
                tags = [("hi" if (v >> 368) == (Q >> 368) else "lo") for v in comps if (v >> 368) in (0, Q >> 368)]
                tags += ["half" for v in comps[ny:] if (v >> 368) == half]
                assert tags, "prefix_points.json does not match the model"
                out.append(("enc-" + tags[0], P))
        _PREFIX_PTS[g] = out
    return _PREFIX_PTS[g]


def _fpow(f, a, e):
    r = f.one
    while e:
        if e & 1:
            r = f.mul(r, a)
        a = f.mul(a, a)
        e >>= 1
    return r


_CUBE = {}


def cube_roots(g, c):
    """all cube roots of c in Fq (g = 1) / Fq2 (g = 2); the 3-Sylow subgroup of the unit group has order 9 in both"""
    f = FQ if g == 1 else FQ2
    n = Q - 1 if g == 1 else Q * Q - 1
    if f.is_zero(c):
        return [f.zero]
    if _fpow(f, c, n // 3) != f.one:
        return []
    t = n // 9
    assert t % 3 != 0
    if g not in _CUBE:
        k = 2
        while True:
            h = f.small(k) if g == 1 else (k, 1)
            if _fpow(f, h, n // 3) != f.one:
                break
            k += 1
        a = _fpow(f, h, t)                       # generator of the Sylow subgroup (order 9)
        syl = [f.one]
        for _ in range(8):
            syl.append(f.mul(syl[-1], a))
        _CUBE[g] = syl
    syl = _CUBE[g]
    u = pow(3, -1, t)
    x0 = _fpow(f, c, u)                          # x0^3 = c * e with e = c^(3u-1) in the Sylow subgroup
    e = f.mul(_fpow(f, x0, 3), f.inv(c))
    for z in syl:
        if f.mul(_fpow(f, z, 3), e) == f.one:
            x = f.mul(x0, z)
            om = syl[3]
            return [f.norm(x), f.norm(f.mul(x, om)), f.norm(f.mul(x, f.mul(om, om)))]
    raise AssertionError("cube root")


def y_threshold_points(g, rng, count=4, spread=1 << 16):
    """On-curve points (outside the subgroup in general) whose y - for G2 the decisive coefficient y.c1 - lies within
    `spread` of the threshold (q-1)/2 that separates a root from its negative in the sort order: x is a cube root of
    y^2 - b. These decide the comparison behind the sort flag."""
    c = E1 if g == 1 else E2
    f = c.f
    half = (Q - 1) // 2
    out = []
    ds = list(range(0, 40)) + [rng.randrange(spread) for _ in range(400)]
    for d in ds:
        for side in (0, 1):
            yv = half - d if side == 0 else half + 1 + d
            for y in ([yv] if g == 1 else [(rng.randrange(Q), yv), (yv, 0), (0, yv)]):
                xs = cube_roots(g, f.sub(f.mul(y, y), c.b))
                if xs:
                    P = (rng.choice(xs), f.norm(y))
                    assert c.on_curve(P)
                    out.append(P)
        if len(out) >= count:
            break
    return out
