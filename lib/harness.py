"""Runtime-monitoring harness: script building, driver execution, log parsing, monitoring loop,
sharding, evidence, known findings, replays."""
import collections
import hashlib
import json
import multiprocessing
import os
import random
import resource
import shutil
import signal
import subprocess
import sys
import time
import traceback

from . import vals as V

ROOT = "/verif"
WORK = os.path.join(ROOT, ".work")
REPLAYS = os.environ.get("VERIF_REPLAY_DIR", os.path.join(ROOT, "replays"))
EVID = os.environ.get("VERIF_EVIDENCE_DIR", os.path.join(ROOT, "evidence"))   # overridden only by mutation campaigns
NCPU = min(16, os.cpu_count() or 1)


class Inconclusive(Exception):
    pass


# ---------------------------------------------------------------------------- scripts

class Ref:
    __slots__ = ("id", "k")

    def __init__(self, id, k=None):
        self.id, self.k = id, k

    def __getitem__(self, k):
        return Ref(self.id, k)

    def tok(self):
        return "$%d" % self.id if self.k is None else "$%d.%d" % (self.id, self.k)


def tok(a):
    if isinstance(a, Ref):
        return a.tok()
    if isinstance(a, str):
        return a
    if isinstance(a, tuple) and a[0] == "l":
        return "l:" + ";".join(tok(x) for x in a[1])
    return V.fmt(a)


class Script:
    def __init__(self):
        self.lines = []
        self.next = 1
        self.meta = {}  # id -> generator label (never used for verdicts)

    def op(self, name, *args, label=None):
        i = self.next
        self.next += 1
        self.lines.append("%d %s %s" % (i, name, " ".join(tok(a) for a in args)))
        if label is not None:
            self.meta[i] = label
        return Ref(i)

    def raw(self, line):
        self.lines.append(line)

    def text(self):
        return "\n".join(self.lines) + "\n"


# ---------------------------------------------------------------------------- records

class Rec:
    __slots__ = ("id", "op", "toks", "args", "srcs", "status", "outs", "cat", "build", "line")

    def __repr__(self):
        return "Rec(%s %s %s -> %s)" % (self.id, self.op, " ".join(self.toks)[:200], self.status)


def parse_script(text):
    recs = collections.OrderedDict()
    for line in text.splitlines():
        line = line.strip()
        if not line or line.startswith("#") or line == "PAR" or line.startswith("SHARE_"):
            continue
        p = line.split()
        r = Rec()
        r.id, r.op, r.toks = int(p[0]), p[1], p[2:]
        r.args, r.srcs, r.status, r.outs, r.cat, r.build, r.line = None, None, "missing", [], None, None, line
        recs[r.id] = r
    return recs


def _resolve(tokstr, recs):
    """-> (typed value, source id or None)"""
    if tokstr.startswith("$"):
        body = tokstr[1:]
        if "." in body:
            i, k = body.split(".")
            src = recs[int(i)]
            if src.status != "ok":
                raise KeyError("operand %s unavailable" % tokstr)
            lst = src.outs[0]
            assert lst[0] == "l"
            return lst[1][int(k)], int(i)
        src = recs[int(body)]
        if src.status != "ok" or not src.outs:
            raise KeyError("operand %s unavailable" % tokstr)
        return src.outs[0], int(body)
    if tokstr.startswith("l:"):
        body = tokstr[2:]
        items = [(_resolve(x, recs)) for x in body.split(";")] if body else []
        return ("l", [x[0] for x in items]), [x[1] for x in items]
    return V.parse(tokstr), None


def apply_log(recs, logtext, build):
    """Fill statuses / outputs from a driver log. Returns (ended_cleanly, open_ids)."""
    open_ids = []
    ended = False
    begun = set()
    for line in logtext.splitlines():
        if not line:
            continue
        if line[0] == "B":
            begun.add(int(line[2:]))
        elif line[0] == "E" and line[1] == " ":
            p = line.split(" ")
            i = int(p[1])
            r = recs.get(i)
            if r is None:
                continue
            st = p[2]
            r.build = build
            if st == "ok":
                r.status = "ok"
                r.outs = [V.parse(x) for x in p[3:]]
            elif st == "none":
                r.status = "none"
            elif st == "panic":
                r.status = "panic"
            elif st.startswith("err:"):
                r.status, r.cat = "err", st[4:]
            elif st.startswith("bad:"):
                r.status, r.cat = "bad", st[4:]
            begun.discard(i)
        elif line == "END":
            ended = True
    open_ids = sorted(begun)
    for i in open_ids:
        if i in recs:
            recs[i].status = "open"
            recs[i].build = build
    return ended, open_ids


def resolve_args(recs):
    for r in recs.values():
        if r.status in ("missing",):
            continue
        try:
            rs = [_resolve(t, recs) for t in r.toks]
            r.args = [x[0] for x in rs]
            r.srcs = [x[1] for x in rs]
        except KeyError:
            r.args = None


# ---------------------------------------------------------------------------- driver

_BUILT = {}


def build(variant, repo=None):
    repo = repo or os.environ.get("VERIF_REPO", "/repo")
    key = (variant, repo)
    if key in _BUILT:
        return _BUILT[key]
    env = dict(os.environ, CARGO_NET_OFFLINE="true")
    p = subprocess.run([os.path.join(ROOT, "tools/build_driver.sh"), variant, repo],
                       stdout=subprocess.PIPE, stderr=subprocess.PIPE, text=True, env=env)
    if p.returncode != 0:
        raise Inconclusive("driver build failed (%s): %s" % (variant, p.stderr[-2000:]))
    path = p.stdout.strip().splitlines()[-1]
    if not os.path.exists(path):
        raise Inconclusive("driver binary missing: " + path)
    _BUILT[key] = path
    return path


def run_driver(binary, script_path, log_path, timeout, extra=(), env=None, wrapper=()):
    """Runs the driver; returns (returncode or None on watchdog, cpu seconds, stderr tail)."""
    t0 = time.time()
    e = dict(os.environ)
    if env:
        e.update(env)
    try:
        p = subprocess.run(list(wrapper) + [binary, script_path, log_path] + list(extra),
                           stdout=subprocess.PIPE, stderr=subprocess.PIPE, timeout=timeout, env=e)
        return p.returncode, time.time() - t0, p.stderr.decode("utf8", "replace")[-4000:]
    except subprocess.TimeoutExpired as ex:
        return None, time.time() - t0, (ex.stderr or b"").decode("utf8", "replace")[-4000:]


# ---------------------------------------------------------------------------- shard execution

class ShardResult:
    def __init__(self):
        self.evals = 0            # oracle comparisons performed
        self.classes = collections.Counter()
        self.samples = []
        self.violations = []      # dicts
        self.inconclusive = []    # strings
        self.info = collections.Counter()
        self.extra = {}

    def merge(self, o):
        self.evals += o.evals
        self.classes.update(o.classes)
        for s in o.samples:
            if len(self.samples) < 12:
                self.samples.append(s)
        self.violations.extend(o.violations)
        self.inconclusive.extend(o.inconclusive)
        self.info.update(o.info)
        for k, v in o.extra.items():
            if isinstance(v, (int, float)) and isinstance(self.extra.get(k, 0), (int, float)):
                self.extra[k] = self.extra.get(k, 0) + v
            elif isinstance(v, list):
                self.extra.setdefault(k, [])
                self.extra[k].extend(v)
                del self.extra[k][40:]
            elif isinstance(v, dict):
                self.extra.setdefault(k, {}).update(v)
            else:
                self.extra[k] = v


def work_dir(prop, shard_no):
    d = os.path.join(WORK, "%s-%d-%d" % (prop, os.getpid(), shard_no))
    os.makedirs(d, exist_ok=True)
    return d


def monitor_script(prop_mod, script_text, builds, wd, res, shard_desc, timeout=600, judge=None):
    """Run `script_text` under each build, judge every record with the property's monitor."""
    from . import spec
    sp = os.path.join(wd, "script.txt")
    with open(sp, "w") as f:
        f.write(script_text)
    keep = os.environ.get("VERIF_KEEP_SCRIPTS")   # coverage tooling: collect every generated script
    if keep:
        os.makedirs(keep, exist_ok=True)
        with open(os.path.join(keep, "%s-%d-%d.txt" % (getattr(prop_mod, "ID", "X"), os.getpid(), abs(hash(script_text)) % 10**9)), "w") as f:
            f.write(script_text)
    for bname in builds:
        binary = build(bname)
        lp = os.path.join(wd, "log-%s.txt" % bname)
        rc, secs, err = run_driver(binary, sp, lp, timeout)
        logtext = open(lp).read() if os.path.exists(lp) else ""
        recs = parse_script(script_text)
        ended, open_ids = apply_log(recs, logtext, bname)
        partial = False
        if rc is None:
            # inconclusive for whatever did not run; the records completed before the watchdog fired are observations
            # like any other and are judged below
            res.inconclusive.append("watchdog: driver (%s) exceeded %ds on shard %s" % (bname, timeout, shard_desc))
            partial = True
        elif rc != 0 or not ended:
            # the process died inside an operation: that operation stays open and is reported
            if open_ids:
                r = recs[open_ids[0]]
                res.violations.append(dict(kind="abort", build=bname, id=r.id, line=r.line,
                                           expected="the call returns", observed="process died (rc=%s) %s" % (rc, err[-300:]),
                                           shard=shard_desc, script=closure(script_text, r.id)))
            else:
                res.inconclusive.append("driver (%s) exited rc=%s without END: %s" % (bname, rc, err[-300:]))
            continue
        resolve_args(recs)
        ctx = spec.Ctx(recs, bname)
        j = judge or prop_mod.judge
        for r in recs.values():
            if r.status == "missing":
                if not partial:
                    res.inconclusive.append("op %d has no record in the %s log" % (r.id, bname))
                continue
            if r.status == "bad" and "not_set" in (r.cat or "") and _dep_failed(r, recs):
                continue  # operand is the value of a call that (legitimately or not) produced none; judged there
            if r.status == "bad":
                res.inconclusive.append("harness error on op %d (%s): %s" % (r.id, r.line[:120], r.cat))
                continue
            if r.status == "ok" and any(o[0] == "NC" for o in r.outs):
                res.evals += 1
                res.violations.append(dict(kind="noncanonical", build=bname, id=r.id, line=r.line[:2000],
                                           expected="field elements equal (library ==) to the canonical element of the same integer value",
                                           observed="a returned element differs from from_repr(into_repr(x)): " + str(r.outs)[:600],
                                           shard=shard_desc, script=closure(script_text, r.id)))
                continue
            if r.args is None:
                continue  # depends on an op that did not produce a value (already judged there)
            try:
                verdict = j(ctx, r, res)
            except Exception as ex:  # a monitor bug is never a violation
                res.inconclusive.append("monitor error on op %d (%s): %s" % (r.id, r.line[:160], traceback.format_exc()[-600:]))
                continue
            if verdict is None:
                continue
            res.violations.append(dict(kind="mismatch", build=bname, id=r.id, line=r.line[:2000],
                                       expected=str(verdict)[:1500],
                                       observed=("%s %s %s" % (r.status, r.cat or "", " ".join(V.fmt(o) if o[0] in ("n","t","b","q","r","Q","R","q2","q6","q12","p1","a1","p2","a2","w","s") else str(o)[:300] for o in r.outs)))[:1500],
                                       shard=shard_desc, script=closure(script_text, r.id)))
            if len(res.violations) > 50:
                break
    return res


def _dep_failed(r, recs):
    import re
    for t in r.toks:
        for m in re.finditer(r"\$(\d+)", t):
            d = recs.get(int(m.group(1)))
            if d is None or d.status != "ok" or not d.outs:
                return True
    return False


def _shard_entry(a):
    modname, shard, tier, seed = a
    res = ShardResult()
    try:
        import importlib
        mod = importlib.import_module("props." + modname)
        wd = work_dir(modname, shard["no"])
        try:
            mod.run_shard(shard, tier, seed, wd, res)
        finally:
            shutil.rmtree(wd, ignore_errors=True)
    except Inconclusive as ex:
        res.inconclusive.append(str(ex))
    except Exception:
        res.inconclusive.append("shard %s crashed: %s" % (shard, traceback.format_exc()[-1500:]))
    return res


def run_shards(modname, shards, tier, seed, procs=NCPU):
    total = ShardResult()
    if procs <= 1 or len(shards) <= 1:
        for s in shards:
            total.merge(_shard_entry((modname, s, tier, seed)))
        return total
    with multiprocessing.get_context("fork").Pool(min(procs, len(shards))) as pool:
        for r in pool.imap_unordered(_shard_entry, [(modname, s, tier, seed) for s in shards]):
            total.merge(r)
    return total


# ---------------------------------------------------------------------------- known findings

def load_known():
    p = os.path.join(ROOT, "known_findings.json")
    if not os.path.exists(p):
        return []
    return json.load(open(p)).get("findings", [])


def closure(script_text, target_id):
    """Lines of the script that op `target_id` depends on (its register closure), in order."""
    recs = parse_script(script_text)
    need, stack = set(), [target_id]
    import re
    while stack:
        i = stack.pop()
        if i in need or i not in recs:
            continue
        need.add(i)
        for t in recs[i].toks:
            for m in re.finditer(r"\$(\d+)", t):
                stack.append(int(m.group(1)))
    return "\n".join(r.line for r in recs.values() if r.id in need) + "\n"


def write_replay(prop, seed, n, viol, script_text, extra=None):
    d = os.path.join(REPLAYS, "%s-%s-%d" % (prop, seed, n))
    os.makedirs(d, exist_ok=True)
    with open(os.path.join(d, "script.txt"), "w") as f:
        whole = script_text is not None and ("\nPAR\n" in script_text or viol.get("kind") in ("history-dependence", "nondeterminism"))
        f.write(closure(script_text, viol["id"]) if viol.get("id") is not None and script_text and not whole else (script_text or ""))
    meta = dict(property=prop, seed=seed, violation=viol)
    if extra:
        meta.update(extra)
    with open(os.path.join(d, "meta.json"), "w") as f:
        json.dump(meta, f, indent=1, default=str)
    return d


# ---------------------------------------------------------------------------- evidence

def write_evidence(prop, tier, seed, res, wall, rule, level="exploration", assumptions=None, extra_cov=None,
                   exhaustive=None, violations=0):
    os.makedirs(EVID, exist_ok=True)
    cov = dict(
        evaluations=int(res.evals),
        distinct_nontrivial=int(len(res.classes)),
        rule=rule,
        samples=res.samples[:12],
        class_counts_top=dict(res.classes.most_common(60)),
        info=dict(res.info),
    )
    if exhaustive is not None:
        cov["exhaustive_subspaces"] = exhaustive
    if extra_cov:
        cov.update(extra_cov)
    for k, v in res.extra.items():
        if k != "workdirs":
            cov.setdefault(k, v)
    ev = dict(property_id=prop, tier=tier, seed=int(seed), level=level, coverage=cov,
              assumptions=assumptions or [], wall_s=round(wall, 2), violations=int(violations))
    tmp = os.path.join(EVID, prop + ".json.tmp")
    with open(tmp, "w") as f:
        json.dump(ev, f, indent=1, default=str)
    os.replace(tmp, os.path.join(EVID, prop + ".json"))
