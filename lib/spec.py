"""Executable sequential specification: one judge per driver op.

judge(ctx, rec, res) -> None when the observed outcome is what the reference model prescribes,
a string (the expected outcome) otherwise, or SKIP when the call is outside the domain the
properties quantify over (no verdict). `res.evals` counts oracle comparisons.

Nothing here trusts generator labels: operands are the literals of the script or the library's
own logged outputs, and every expectation is recomputed from them with the model.
"""
from model.params import Q, R, HEFF1, HEFF2, FINAL_EXP
from model import fields as F
from model.curves import E1, E2, FQ, FQ2, g1_gen, g2_gen
from model import rfc9380 as H
from model import encoding as EN
from model import pairing as PA

SKIP = "__skip__"


class Ctx:
    def __init__(self, recs, build):
        self.recs, self.build = recs, build
        self.cache = {}


# ---------------------------------------------------------------------------- helpers

def curve(g):
    return E1 if g == 1 else E2


def pt(v):
    """typed point value -> (group, model point)"""
    ty, p = v
    if ty == "p1":
        return 1, E1.from_jacobian(*p)
    if ty == "p2":
        return 2, E2.from_jacobian(*p)
    if ty == "a1":
        return 1, (None if p[2] else (p[0] % Q, p[1] % Q))
    if ty == "a2":
        return 2, (None if p[2] else (FQ2.norm(p[0]), FQ2.norm(p[1])))
    raise TypeError("not a point: " + ty)


def on_curve(v):
    g, P = pt(v)
    return curve(g).on_curve(P)


def canonical_affine(v):
    """library-produced affine form: the identity is (0, 1, inf)"""
    ty, p = v
    if not p[2]:
        return True
    return (p[0], p[1]) == ((0, 1) if ty == "a1" else ((0, 0), (1, 0)))


_SM = {}


def smul(g, k, P):
    if P is None:
        return None
    key = (g, k, P)
    r = _SM.get(key)
    if r is None and key not in _SM:
        r = curve(g).mul(k, P)
        if len(_SM) > 200000:
            _SM.clear()
        _SM[key] = r
    return r


_SUB = {}


def in_sub(g, P):
    if P is None:
        return True
    key = (g, P)
    r = _SUB.get(key)
    if r is None:
        c = curve(g)
        r = c.on_curve(P) and c.mul(R, P) is None
        _SUB[key] = r
    return r


def sub_oracle(c, P):
    return in_sub(1 if c is E1 else 2, P)


def show_pt(P):
    if P is None:
        return "O"
    if isinstance(P[0], tuple):
        return "(%x+%x*u, %x+%x*u)" % (P[0][0], P[0][1], P[1][0], P[1][1])
    return "(%x, %x)" % P


def expect_point(res, rec, g, expected, idx=0, want_type=None):
    res.evals += 1
    if rec.status != "ok":
        return "point %s (observed status %s)" % (show_pt(expected), rec.status)
    o = rec.outs[idx]
    if o[0] not in ("p1", "a1", "p2", "a2"):
        return "a point"
    og, P = pt(o)
    if og != g:
        return "a point of G%d" % g
    if not curve(g).eq(P, expected):
        return "point " + show_pt(expected)
    return None


def expect_val(res, rec, expected, idx=0):
    res.evals += 1
    if rec.status != "ok":
        return "%r (observed status %s)" % (expected, rec.status)
    if rec.outs[idx] != expected:
        return repr(expected)[:800]
    return None


def expect_status(res, rec, status, cat=None):
    res.evals += 1
    if rec.status != status:
        return "status %s%s" % (status, (":" + cat) if cat else "")
    if cat is not None and (rec.cat or "").split(":")[0] != cat:
        return "status %s:%s" % (status, cat)
    return None


# ---------------------------------------------------------------------------- fields

class FM:
    """model operations of one field family on typed payloads"""

    def __init__(self, fam):
        self.fam = fam
        if fam in ("fq", "fr"):
            m = Q if fam == "fq" else R
            self.m = m
            self.add = lambda a, b: (a + b) % m
            self.sub = lambda a, b: (a - b) % m
            self.mul = lambda a, b: a * b % m
            self.neg = lambda a: (-a) % m
            self.zero, self.one = 0, 1
            self.pow = lambda a, e: pow(a, e, m)
            self.frob = lambda a, k: a
        elif fam == "fq2":
            self.add, self.sub, self.mul, self.neg = F.f2_add, F.f2_sub, F.f2_mul, F.f2_neg
            self.zero, self.one = F.F2_ZERO, F.F2_ONE
            self.pow = F.f2_pow
            self.frob = F.f2_frobenius
        elif fam == "fq6":
            self.add, self.sub, self.mul, self.neg = F.f6_add, F.f6_sub, F.f6_mul, F.f6_neg
            self.zero, self.one = F.F6_ZERO, F.F6_ONE
            self.pow = lambda a, e: F.f12_pow((a, F.F6_ZERO), e)[0]
            self.frob = F.f6_frobenius
        elif fam == "fq12":
            self.add, self.sub, self.mul, self.neg = F.f12_add, F.f12_sub, F.f12_mul, F.f12_neg
            self.zero, self.one = F.F12_ZERO, F.F12_ONE
            self.pow = F.f12_pow
            self.frob = F.f12_frobenius
        self.ty = {"fq": "q", "fr": "r", "fq2": "q2", "fq6": "q6", "fq12": "q12"}[fam]


_FM = {}


def fm(fam):
    if fam not in _FM:
        _FM[fam] = FM(fam)
    return _FM[fam]


def limbs_int(l):
    v = 0
    for i, x in enumerate(l):
        v |= x << (64 * i)
    return v


def judge_field(ctx, rec, res, fam, name):
    m = fm(fam)
    a = [x[1] for x in rec.args]
    ty = m.ty
    if name in ("zero", "one"):
        return expect_val(res, rec, (ty, m.zero if name == "zero" else m.one))
    if name in ("add", "sub", "mul"):
        return expect_val(res, rec, (ty, getattr(m, name)(a[0], a[1])))
    if name == "neg":
        return expect_val(res, rec, (ty, m.neg(a[0])))
    if name == "dbl":
        return expect_val(res, rec, (ty, m.add(a[0], a[0])))
    if name == "sqr":
        return expect_val(res, rec, (ty, m.mul(a[0], a[0])))
    if name == "inv":
        res.evals += 1
        if a[0] == m.zero:
            return None if rec.status == "none" else "none (zero has no inverse)"
        if rec.status != "ok":
            return "an inverse (observed %s)" % rec.status
        return None if m.mul(a[0], rec.outs[0][1]) == m.one else "x with a*x = 1"
    if name == "frob":
        return expect_val(res, rec, (ty, m.frob(a[0], a[1][0])))
    if name == "pow":
        return expect_val(res, rec, (ty, m.pow(a[0], limbs_int(a[1]))))
    if name == "is_zero":
        return expect_val(res, rec, ("t", a[0] == m.zero))
    if name == "eq":
        return expect_val(res, rec, ("t", a[0] == a[1]))
    if name == "ne":
        return expect_val(res, rec, ("t", a[0] != a[1]))
    # ---- prime fields
    if fam in ("fq", "fr"):
        mod = m.m
        rty = "Q" if fam == "fq" else "R"
        if name in ("cmp", "pcmp"):
            return expect_val(res, rec, ("n", (a[0] > a[1]) - (a[0] < a[1])))
        if name in ("lt", "gt", "le", "ge"):
            return expect_val(res, rec, ("t", {"lt": a[0] < a[1], "gt": a[0] > a[1], "le": a[0] <= a[1], "ge": a[0] >= a[1]}[name]))
        if name == "max":
            return expect_val(res, rec, (ty, max(a[0], a[1])))
        if name == "min":
            return expect_val(res, rec, (ty, min(a[0], a[1])))
        if name == "clamp":
            if a[1] > a[2]:
                return SKIP          # Ord::clamp panics by contract when min > max
            return expect_val(res, rec, (ty, min(max(a[0], a[1]), a[2])))
        if name == "from_repr":
            if a[0] < mod:
                return expect_val(res, rec, (ty, a[0]))
            return expect_status(res, rec, "err", "notinfield")
        if name == "into_repr":
            return expect_val(res, rec, (rty, a[0]))
        if name == "char":
            return expect_val(res, rec, (rty, mod))
        if name == "legendre":
            return expect_val(res, rec, ("n", F.fq_legendre(a[0]) if fam == "fq" else F.fr_legendre(a[0])))
        if name == "sqrt":
            res.evals += 1
            leg = F.fq_legendre(a[0]) if fam == "fq" else F.fr_legendre(a[0])
            if leg == -1:
                return None if rec.status == "none" else "none (non-residue)"
            if rec.status != "ok":
                return "a square root (observed %s)" % rec.status
            return None if rec.outs[0][1] ** 2 % mod == a[0] else "b with b^2 = a"
        if name == "mulgen":
            # which generator is used is a free choice; a generator is necessarily a quadratic non-residue
            res.evals += 1
            if rec.status != "ok":
                return "a multiplicative generator"
            x = rec.outs[0][1]
            leg = F.fq_legendre(x) if fam == "fq" else F.fr_legendre(x)
            res.info["multiplicative_generator = %d" % x if x < 100 else "multiplicative_generator is large"] += 1
            return None if leg == -1 else "a generator of the multiplicative group (must be a non-residue)"
        if name == "consts":
            res.evals += 1
            want = [381, 380, 1] if fam == "fq" else [255, 254, 32]
            got = [o[1] for o in rec.outs] if rec.status == "ok" else None
            return None if got == want else "NUM_BITS, CAPACITY, S = %r" % want
        if name == "root_of_unity":
            res.evals += 1
            s = 1 if fam == "fq" else 32
            if rec.status != "ok":
                return "a root of unity"
            x = rec.outs[0][1]
            return None if pow(x, 1 << s, mod) == 1 and pow(x, 1 << (s - 1), mod) != 1 else "an element of order 2^S"
        if name == "sgn0" and fam == "fq":
            return expect_val(res, rec, ("n", a[0] & 1))
        if name == "negate_if" and fam == "fq":
            return expect_val(res, rec, (ty, m.neg(a[0]) if a[1] else a[0]))
    if fam == "fq2":
        if name in ("cmp", "pcmp"):
            ka, kb = F.f2_cmp_key(a[0]), F.f2_cmp_key(a[1])
            return expect_val(res, rec, ("n", (ka > kb) - (ka < kb)))
        if name in ("lt", "gt", "le", "ge"):
            ka, kb = F.f2_cmp_key(a[0]), F.f2_cmp_key(a[1])
            return expect_val(res, rec, ("t", {"lt": ka < kb, "gt": ka > kb, "le": ka <= kb, "ge": ka >= kb}[name]))
        if name == "max":
            return expect_val(res, rec, (ty, a[0] if F.f2_cmp_key(a[0]) > F.f2_cmp_key(a[1]) else a[1]))
        if name == "min":
            return expect_val(res, rec, (ty, a[0] if F.f2_cmp_key(a[0]) <= F.f2_cmp_key(a[1]) else a[1]))
        if name == "clamp":
            k0, k1, k2 = F.f2_cmp_key(a[0]), F.f2_cmp_key(a[1]), F.f2_cmp_key(a[2])
            if k1 > k2:
                return SKIP
            return expect_val(res, rec, (ty, a[1] if k0 < k1 else a[2] if k0 > k2 else a[0]))
        if name == "legendre":
            return expect_val(res, rec, ("n", F.f2_legendre(a[0])))
        if name == "sqrt":
            res.evals += 1
            if F.f2_legendre(a[0]) == -1:
                return None if rec.status == "none" else "none (non-residue)"
            if rec.status != "ok":
                return "a square root (observed %s)" % rec.status
            return None if F.f2_sqr(rec.outs[0][1]) == a[0] else "b with b^2 = a"
        if name == "norm":
            return expect_val(res, rec, ("q", F.f2_norm(a[0])))
        if name == "mul_nr":
            return expect_val(res, rec, (ty, F.f2_mul(a[0], F.XI)))
        if name == "sgn0":
            return expect_val(res, rec, ("n", F.f2_sgn0(a[0])))
        if name == "negate_if":
            return expect_val(res, rec, (ty, F.f2_neg(a[0]) if a[1] else a[0]))
    if fam == "fq6":
        if name == "mul_nr":
            return expect_val(res, rec, (ty, F.f6_mul(a[0], (F.F2_ZERO, F.F2_ONE, F.F2_ZERO))))
        if name == "mul_by_1":
            return expect_val(res, rec, (ty, F.f6_mul(a[0], (F.F2_ZERO, a[1], F.F2_ZERO))))
        if name == "mul_by_01":
            return expect_val(res, rec, (ty, F.f6_mul(a[0], (a[1], a[2], F.F2_ZERO))))
    if fam == "fq12":
        if name == "conj":
            # conjugation over Fq6 = the Frobenius power 6
            return expect_val(res, rec, (ty, F.f12_conj(a[0])))
        if name == "mul_by_014":
            sparse = ((a[1], a[2], F.F2_ZERO), (F.F2_ZERO, a[3], F.F2_ZERO))
            return expect_val(res, rec, (ty, F.f12_mul(a[0], sparse)))
    raise KeyError("no spec for %s.%s" % (fam, name))


def judge_repr(ctx, rec, res, fam, name):
    bits = 384 if fam == "Q" else 256
    mask = (1 << bits) - 1
    a = [x[1] for x in rec.args]
    if name == "add_nocarry":
        if a[0] + a[1] > mask:
            return SKIP
        return expect_val(res, rec, (fam, a[0] + a[1]))
    if name == "sub_noborrow":
        if a[0] < a[1]:
            return SKIP
        return expect_val(res, rec, (fam, a[0] - a[1]))
    if name == "shr":
        return expect_val(res, rec, (fam, a[0] >> a[1]))
    if name == "shl":
        return expect_val(res, rec, (fam, (a[0] << a[1]) & mask))
    if name == "div2":
        return expect_val(res, rec, (fam, a[0] >> 1))
    if name == "mul2":
        return expect_val(res, rec, (fam, (a[0] << 1) & mask))
    if name == "num_bits":
        return expect_val(res, rec, ("n", a[0].bit_length()))
    if name == "is_zero":
        return expect_val(res, rec, ("t", a[0] == 0))
    if name == "is_odd":
        return expect_val(res, rec, ("t", a[0] & 1 == 1))
    if name == "is_even":
        return expect_val(res, rec, ("t", a[0] & 1 == 0))
    if name in ("cmp", "pcmp"):
        return expect_val(res, rec, ("n", (a[0] > a[1]) - (a[0] < a[1])))
    if name in ("lt", "gt"):
        return expect_val(res, rec, ("t", a[0] < a[1] if name == "lt" else a[0] > a[1]))
    if name == "eq":
        return expect_val(res, rec, ("t", a[0] == a[1]))
    if name == "ne":
        return expect_val(res, rec, ("t", a[0] != a[1]))
    if name == "from_u64":
        return expect_val(res, rec, (fam, a[0][0]))
    if name == "write_be":
        return expect_val(res, rec, ("b", a[0].to_bytes(bits // 8, "big")))
    if name == "write_le":
        return expect_val(res, rec, ("b", a[0].to_bytes(bits // 8, "little")))
    if name in ("read_be", "read_le"):
        n = bits // 8
        if len(a[0]) < n:
            return expect_status(res, rec, "err", "io")
        return expect_val(res, rec, (fam, int.from_bytes(a[0][:n], "big" if name == "read_be" else "little")))
    raise KeyError("no spec for %s.%s" % (fam, name))


# ---------------------------------------------------------------------------- curves

def _src(ctx, rec, i):
    s = rec.srcs[i]
    return ctx.recs[s] if isinstance(s, int) else None


def msm_expected(g, pts, scalars):
    c = curve(g)
    acc = None
    for P, k in zip(pts, scalars):
        acc = c.add(acc, smul(g, k, P))
    return acc


def splitmix(seed):
    M = (1 << 64) - 1
    s = seed
    while True:
        s = (s + 0x9E3779B97F4A7C15) & M
        z = s
        z = ((z ^ (z >> 30)) * 0xBF58476D1CE4E5B9) & M
        z = ((z ^ (z >> 27)) * 0x94D049BB133111EB) & M
        yield z ^ (z >> 31)


def judge_curve(ctx, rec, res, g, name):
    c = curve(g)
    A = rec.args
    if name.endswith("_re"):
        name = name[:-3]        # the same path, the scalar handed over as a caller-defined type (conversion re-enters the library)
    if name in ("zero", "azero"):
        return expect_point(res, rec, g, None)
    if name in ("one", "aone"):
        return expect_point(res, rec, g, g1_gen() if g == 1 else g2_gen())
    if name in ("add", "sub", "addm", "subm"):
        if not (on_curve(A[0]) and on_curve(A[1])):
            return SKIP
        P, Qp = pt(A[0])[1], pt(A[1])[1]
        return expect_point(res, rec, g, c.add(P, Qp) if name in ("add", "addm") else c.sub(P, Qp))
    if name == "dbl":
        if not on_curve(A[0]):
            return SKIP
        P = pt(A[0])[1]
        return expect_point(res, rec, g, c.add(P, P))
    if name in ("neg", "aneg"):
        if not on_curve(A[0]):
            return SKIP
        return expect_point(res, rec, g, c.neg(pt(A[0])[1]))
    if name == "eq":
        if not (on_curve(A[0]) and on_curve(A[1])):
            return SKIP
        return expect_val(res, rec, ("t", c.eq(pt(A[0])[1], pt(A[1])[1])))
    if name == "aeq":
        if not (on_curve(A[0]) and on_curve(A[1]) and canonical_affine(A[0]) and canonical_affine(A[1])):
            return SKIP
        return expect_val(res, rec, ("t", c.eq(pt(A[0])[1], pt(A[1])[1])))
    if name == "ne":
        if not (on_curve(A[0]) and on_curve(A[1])):
            return SKIP
        return expect_val(res, rec, ("t", not c.eq(pt(A[0])[1], pt(A[1])[1])))
    if name == "ane":
        if not (on_curve(A[0]) and on_curve(A[1]) and canonical_affine(A[0]) and canonical_affine(A[1])):
            return SKIP
        return expect_val(res, rec, ("t", not c.eq(pt(A[0])[1], pt(A[1])[1])))
    if name in ("to_affine", "to_affine_from", "to_proj", "to_proj_from"):
        if not on_curve(A[0]):
            return SKIP
        v = expect_point(res, rec, g, pt(A[0])[1])
        if v is None and name.startswith("to_affine") and rec.outs[0][0][0] != "a":
            return "an affine point"
        return v
    if name == "is_zero":
        return expect_val(res, rec, ("t", pt(A[0])[1] is None))
    if name == "ais_zero":
        return expect_val(res, rec, ("t", pt(A[0])[1] is None))
    if name == "is_norm":
        res.info["is_norm_observed"] += 1
        return SKIP
    if name == "batch_norm":
        ins = A[0][1]
        if not all(on_curve(x) for x in ins):
            return SKIP
        res.evals += 1
        if rec.status != "ok":
            return "a list of the same points (observed %s)" % rec.status
        outs = rec.outs[0][1]
        if len(outs) != len(ins):
            return "a list of %d points" % len(ins)
        for i, (x, y) in enumerate(zip(ins, outs)):
            if not c.eq(pt(x)[1], pt(y)[1]):
                return "entry %d unchanged as a point: %s" % (i, show_pt(pt(x)[1]))
            z = y[1][2]
            if z in (0, 1, (0, 0), (1, 0)):
                res.info["batch_outputs_normalized"] += 1
            else:
                res.info["batch_outputs_not_normalized"] += 1
        return None
    if name == "random":
        res.evals += 1
        if rec.status != "ok":
            return "a random subgroup point (observed %s)" % rec.status
        outs = rec.outs[0][1] if rec.outs[0][0] == "l" else [rec.outs[0]]
        for o in outs:
            P = pt(o)[1]
            if P is None:
                res.info["random() returned the identity"] += 1
            if not in_sub(g, P):
                return "a point of the order-r subgroup"
        return None
    if name in ("mul", "amul", "mulfr"):
        if not on_curve(A[0]):
            return SKIP
        return expect_point(res, rec, g, smul(g, A[1][1], pt(A[0])[1]))
    if name == "batch_norm_n":
        if not on_curve(A[0]):
            return SKIP
        n_ = A[1][1]
        res.evals += 1
        if rec.status != "ok":
            return "%d normalised representatives (observed %s)" % (n_, rec.status)
        if rec.outs[0] != ("n", n_):
            return "all %d entries equal to the affine form of the point (observed %r)" % (n_, rec.outs[0][1])
        P = pt(A[0])[1]
        for o in rec.outs[1:]:
            if not curve(g).eq(pt(o)[1], P):
                return "point " + show_pt(P)
        return None
    if name == "wnaf_table":
        if not on_curve(A[0]):
            return SKIP
        w = A[1][1]
        if not 2 <= w <= 22:
            return SKIP
        P = pt(A[0])[1]
        if rec.status != "ok":
            res.evals += 1
            return "a table (observed %s)" % rec.status
        # the layout of the table is an implementation detail (the property is about the products): information only
        good = rec.outs[0][1] == (w, 1 << (w - 1)) and len(rec.outs) == 3 and curve(g).eq(pt(rec.outs[1])[1], P) \
            and curve(g).eq(pt(rec.outs[2])[1], smul(g, (1 << w) - 1, P))
        res.info["wnaf table = odd multiples P,3P,..,(2^w-1)P" if good else "wnaf table has another layout"] += 1
        return SKIP
    if name == "wnaf_tab_entry":
        t = _src(ctx, rec, 0)
        if t is None or not on_curve(t.args[0]) or rec.status != "ok":
            return SKIP
        good = curve(g).eq(pt(rec.outs[0])[1], smul(g, 2 * A[1][1] + 1, pt(t.args[0])[1]))
        res.info["wnaf table entry i = (2i+1)P" if good else "wnaf table entry differs from (2i+1)P"] += 1
        return SKIP
    if name == "wnaf_form":
        # the recoding itself is not specified by the properties: information only
        if rec.status == "ok":
            w, d = rec.outs[0][1]
            s = sum(x << i for i, x in enumerate(d))
            res.info["wnaf_digits_sum_ok" if s == A[0][1] else "wnaf_digits_sum_differs"] += 1
            res.info["wnaf_len_bucket_%d" % (len(d) // 32 * 32)] += 1
        elif rec.status == "panic" and A[0][1] < (1 << 255) and 2 <= A[1][1] <= 22:
            res.evals += 1
            return "a digit string (no panic) for a scalar below 2^255"
        return SKIP
    if name == "wnaf_exp":
        t, d = _src(ctx, rec, 0), _src(ctx, rec, 1)
        if t is None or d is None or t.op.split(".")[1] != "wnaf_table" or d.op.split(".")[1] != "wnaf_form":
            return SKIP
        if t.args[1][1] != d.args[1][1] or not on_curve(t.args[0]) or d.args[0][1] >= (1 << 255):
            return SKIP
        return expect_point(res, rec, g, smul(g, d.args[0][1], pt(t.args[0])[1]))
    if name == "ctx_new":
        return SKIP
    if name == "ctx_base":
        if not on_curve(A[1]):
            return SKIP
        P = pt(A[1])[1]
        ks = [x[1] for x in A[3][1]]
        if any(k >= (1 << 255) for k in ks):
            return SKIP
        res.evals += 1
        if rec.status != "ok":
            return "a list of points (observed %s)" % rec.status
        outs = rec.outs[0][1]
        if len(outs) != len(ks):
            return "%d results" % len(ks)
        for i, (k, o) in enumerate(zip(ks, outs)):
            res.evals += 1
            if not c.eq(pt(o)[1], smul(g, k, P)):
                return "result %d = [k]P = %s" % (i, show_pt(smul(g, k, P)))
        return None
    if name == "ctx_scalar":
        k = A[1][1]
        bases = A[2][1]
        if k >= (1 << 255) or not all(on_curve(b) for b in bases):
            return SKIP
        res.evals += 1
        if rec.status != "ok":
            return "a list of points (observed %s)" % rec.status
        outs = rec.outs[0][1]
        if len(outs) != len(bases):
            return "%d results" % len(bases)
        for i, (b, o) in enumerate(zip(bases, outs)):
            res.evals += 1
            e = smul(g, k, pt(b)[1])
            if not c.eq(pt(o)[1], e):
                return "result %d = [k]B = %s" % (i, show_pt(e))
        return None
    if name in ("rec_scalar", "rec_num"):
        res.evals += 1
        if rec.status != "ok" or not 2 <= rec.outs[0][1] <= 22:
            return "a window size in 2..=22"
        return None
    if name in ("precomp3", "precomp256"):
        if rec.status == "ok" and on_curve(A[0]):
            # documented table contents: information only (the property is about the products)
            P = pt(A[0])[1]
            outs = rec.outs[0][1]
            idx = [0, 1, 2] if name == "precomp3" else [0, 1, 2, 128, 255]
            good = True
            for i in idx:
                if name == "precomp3":
                    e = smul(g, 1 << (64 * (i + 1)), P)
                else:
                    e = smul(g, sum(1 << (32 * b) for b in range(8) if (i >> b) & 1), P)
                good &= c.eq(pt(outs[i])[1], e)
            res.info["%s_table_as_documented" % name if good else "%s_table_differs_from_doc" % name] += 1
        elif rec.status == "panic":
            res.evals += 1
            return "a table (no panic)"
        return SKIP
    if name in ("mul_pre3", "mul_pre256"):
        src = _src(ctx, rec, 2)
        want = "precomp3" if name == "mul_pre3" else "precomp256"
        if src is None or src.op.split(".")[1] != want or src.args[0] != A[0] or not on_curve(A[0]):
            return SKIP
        return expect_point(res, rec, g, smul(g, A[1][1], pt(A[0])[1]))
    if name in ("msm", "msm_pip", "msm_pre256"):
        pts = A[0][1]
        ks = [x[1] for x in A[1][1]]
        nmin = min(len(pts), len(ks))
        if name == "msm_pip" and not 1 <= A[2][1] <= 20:
            return SKIP
        if any(k >= (1 << 255) for k in ks[:nmin]) or not all(on_curve(p) for p in pts[:nmin]):
            return SKIP
        return expect_point(res, rec, g, msm_expected(g, [pt(p)[1] for p in pts[:nmin]], ks[:nmin]))
    if name == "msm_pre256x":
        # table built (by the library) for a LONGER point list; points passed must be a prefix of it
        tp, pts, ks = A[0][1], A[1][1], [x[1] for x in A[2][1]]
        nmin = min(len(pts), len(ks))
        if len(pts) > len(tp) or any(a_ != b_ for a_, b_ in zip(pts, tp)):
            return SKIP
        if any(k >= (1 << 255) for k in ks[:nmin]) or not all(on_curve(p) for p in tp):
            return SKIP
        return expect_point(res, rec, g, msm_expected(g, [pt(p)[1] for p in pts[:nmin]], ks[:nmin]))
    if name == "msm_prog":
        return judge_msm_prog(ctx, rec, res, g)
    if name == "pip_window":
        res.evals += 1
        if rec.status != "ok" or not 1 <= rec.outs[0][1] <= 16:
            return "a window size in 1..=16"
        return None
    if name == "pip_window_est":
        return SKIP
    if name == "in_subgroup":
        return expect_val(res, rec, ("t", in_sub(g, pt(A[0])[1])))
    if name in ("enc_c", "enc_u", "enc_c_from", "enc_u_from"):
        P = pt(A[0])[1]
        produced = isinstance(rec.srcs[0], int)      # a value the library itself handed out (e.g. a negated identity)
        if (not canonical_affine(A[0]) and not produced) or not in_sub(g, P):
            res.info["encode_out_of_domain_observed"] += 1
            return SKIP
        return expect_val(res, rec, ("b", EN.encode(g, P, name.startswith("enc_c"))))
    if name == "enc_sizes":
        res.evals += 1
        want = [48, 96] if g == 1 else [96, 192]
        return None if rec.status == "ok" and [o[1] for o in rec.outs] == want else "sizes %r" % want
    if name in ("dec_c", "dec_u", "dec_c_unchecked", "dec_u_unchecked"):
        data = A[0][1]
        comp = name.startswith("dec_c")
        st, val = EN.decode(g, data, comp, checked=not name.endswith("unchecked"), subgroup_oracle=sub_oracle)
        if st == "ok":
            return expect_point(res, rec, g, val)
        return expect_status(res, rec, "err", val)
    if name in ("hash", "encode"):
        x, msg, dst = A[0][1], A[1][1], A[2][1]
        if len(dst) > 255:
            return SKIP
        f = H.hash_to_curve if name == "hash" else H.encode_to_curve
        return expect_point(res, rec, g, f(g, x, msg, dst))
    if name == "map":
        return expect_point(res, rec, g, H.map1(g, A[0][1]))
    if name == "map2":
        return expect_point(res, rec, g, H.map2(g, A[0][1], A[1][1]))
    if name == "osswu":
        iso = H.ISO1 if g == 1 else H.ISO2
        exp = H.sswu1(A[0][1]) if g == 1 else H.sswu2(A[0][1])
        res.evals += 1
        if rec.status != "ok":
            return "a point of the isogenous curve (observed %s)" % rec.status
        P = iso.from_jacobian(*rec.outs[0][1])
        return None if iso.eq(P, exp) else "sswu(u) = " + show_pt(exp)
    if name == "iso":
        iso = H.ISO1 if g == 1 else H.ISO2
        P = iso.from_jacobian(*A[0][1])
        if not iso.on_curve(P):
            return SKIP
        return expect_point(res, rec, g, H.iso_map(g, P))
    if name == "clear_h":
        if not on_curve(A[0]):
            return SKIP
        return expect_point(res, rec, g, smul(g, HEFF1 if g == 1 else HEFF2, pt(A[0])[1]))
    if name == "iso_tables":
        res.evals += 1
        t = H.ISO_TABLES[g]
        if rec.status != "ok" or len(rec.outs) != 4:
            return "four coefficient tables"
        f = FQ if g == 1 else FQ2
        got = [[x[1] for x in rec.outs[i][1]] for i in range(4)]
        # the same rational functions as RFC 9380 appendix E (a common scaling of numerator and denominator is free):
        # XN * XD_rfc == XN_rfc * XD and YN * YD_rfc == YN_rfc * YD as polynomials
        from model.selftest import _pmul, _ptrim
        for (n_, d_, nr, dr, what) in ((got[0], got[1], t[1], t[2], "x"), (got[2], got[3], t[3], t[4], "y")):
            lhs = _ptrim(f, _pmul(f, n_, list(dr)))
            rhs = _ptrim(f, _pmul(f, list(nr), d_))
            if len(lhs) != len(rhs) or not all(f.is_zero(f.sub(a_, b_)) for a_, b_ in zip(lhs, rhs)) or not _ptrim(f, list(d_)):
                return "the %s-coordinate map of RFC 9380 appendix E (as a rational function)" % what
        res.info["live isogeny tables coefficient-wise equal to the RFC tables" if got == [[f.norm(x) for x in t[1 + i]] for i in range(4)]
                 else "live isogeny tables differ from the RFC tables by a scaling"] += 1
        return None
    if name == "osswu_consts":
        res.evals += 1
        iso = H.ISO1 if g == 1 else H.ISO2
        want = [iso.a, iso.b, H.Z1 if g == 1 else H.Z2]
        got = [o[1] for o in rec.outs] if rec.status == "ok" else None
        return None if got == want else "A', B', Z of RFC 9380 section 8.8"
    raise KeyError("no spec for g%d.%s" % (g, name))


def prog_exponents(a0, d, count):
    """exponents (relative to the base point G of A0 = [a0]G, D = [d]G) of the msm_prog point list"""
    e = []
    for i in range(count):
        if i % 97 == 96:
            e.append(0)
        elif i % 101 == 100 and i > 0:
            e.append(e[i - 1])
        elif i % 103 == 102 and i > 0:
            e.append((-e[i - 1]) % R)
        else:
            e.append((a0 + i * d) % R)
    return e


def judge_msm_prog(ctx, rec, res, g):
    """A0, D must come from `g.amul`-free literals labelled by their discrete logs in the script:
    the generator passes A0 = [a0]G and D = [d]G computed by the *model*, and repeats a0, d as the
    trailing operands so that the monitor can recompute everything (it re-derives A0 and D)."""
    A = rec.args
    c = curve(g)
    count, seed, window, nsample = A[2][1], A[3][1][0], A[4][1], A[5][1]
    a0, d = A[6][1], A[7][1]
    G = g1_gen() if g == 1 else g2_gen()
    if not (c.eq(pt(A[0])[1], smul(g, a0, G)) and c.eq(pt(A[1])[1], smul(g, d, G))):
        return SKIP  # operands are not what the trailing logs claim: no verdict
    if window != 0 and not 1 <= window <= 20:
        return SKIP
    exps = prog_exponents(a0, d, count)
    gen = splitmix(seed)
    total = 0
    scal = []
    for i in range(count):
        l = [next(gen), next(gen), next(gen), next(gen) >> 1]
        k = l[0] | (l[1] << 64) | (l[2] << 128) | (l[3] << 192)
        scal.append(k)
        total = (total + k * exps[i]) % R
    res.evals += 1
    if rec.status != "ok":
        return "a point (observed %s)" % rec.status
    # confirm the sampled operands the driver actually used
    samp = rec.outs[1][1]
    for j in range(0, len(samp), 3):
        i, P, k = samp[j][1], pt(samp[j + 1])[1], samp[j + 2][1]
        res.evals += 1
        if k != scal[i] or not c.eq(P, smul(g, exps[i], G)):
            ctx.cache["msm_prog_operand_mismatch"] = True
            return SKIP  # inputs differ from the assumed ones (point generation uses library arithmetic): no verdict here
    exp = smul(g, total, G)
    return None if c.eq(pt(rec.outs[0])[1], exp) else "sum = [%x]G = %s" % (total, show_pt(exp))


# ---------------------------------------------------------------------------- hashing

def xmd_blocks(x, n):
    b = {"sha256": 32, "sha512": 64, "sha224": 28, "sha384": 48, "sha512_224": 28, "sha512_256": 32}.get(x)
    return None if b is None else -(-n // b)


def judge_misc(ctx, rec, res, op):
    A = rec.args
    if op == "expand":
        x, msg, dst, n = A[0][1], A[1][1], A[2][1], A[3][1] % (1 << 64)      # the driver passes the length as usize
        if len(dst) > 255:
            return SKIP
        ell = xmd_blocks(x, n)
        if ell is not None and ell > 255:
            return expect_status(res, rec, "panic")
        if n > 65535:
            return SKIP
        return expect_val(res, rec, ("b", H.expand_message(x, msg, dst, n)))
    if op == "h2f":
        f, x, msg, dst, count = A[0][1], A[1][1], A[2][1], A[3][1], A[4][1]
        if len(dst) > 255:
            return SKIP
        L = {"fq": 64, "fr": 48, "fq2": 128}[f]
        ell = xmd_blocks(x, count * L)
        if ell is not None and ell > 255:
            return expect_status(res, rec, "panic")
        if count * L > 65535:
            return SKIP
        ty = {"fq": "q", "fr": "r", "fq2": "q2"}[f]
        return expect_val(res, rec, ("l", [(ty, v) for v in H.hash_to_field(x, msg, dst, count, f)]))
    if op in ("from_okm", "from_ro"):
        f, b = A[0][1], A[1][1]
        if f == "fq":
            return expect_val(res, rec, ("q", int.from_bytes(b, "big") % Q))
        if f == "fr":
            return expect_val(res, rec, ("r", int.from_bytes(b, "big") % R))
        return expect_val(res, rec, ("q2", (int.from_bytes(b[:64], "big") % Q, int.from_bytes(b[64:], "big") % Q)))
    if op == "chain_pm3div4":
        return expect_val(res, rec, ("q", pow(A[0][1], (Q - 3) // 4, Q)))
    if op == "chain_p2m9div16":
        return expect_val(res, rec, ("q2", F.f2_pow(A[0][1], (Q * Q - 9) // 16)))
    if op == "ser":
        return judge_ser(ctx, rec, res)
    if op == "deser":
        return judge_deser(ctx, rec, res)
    if op == "nop":
        return SKIP
    raise KeyError("no spec for " + op)


def ser_bytes(v, compressed, produced=False):
    """model serialisation of a typed value, or None when the value is outside the property's domain"""
    ty, p = v
    if ty == "r":
        return EN.fr_bytes(p)
    if ty == "q12":
        return EN.fq12_bytes(p)
    if ty in ("p1", "a1", "p2", "a2"):
        g, P = pt(v)
        if ty[0] == "a" and not canonical_affine(v) and not produced:
            return None
        if not in_sub(g, P):
            return None
        return EN.encode(g, P, compressed)
    return None


def judge_ser(ctx, rec, res):
    A = rec.args
    want = ser_bytes(A[0], A[1][1], produced=isinstance(rec.srcs[0], int))
    if want is None:
        return SKIP
    fail = A[3][1]
    if 0 <= fail < len(want):
        res.evals += 1
        if A[2][1] >= 4000:
            # the caller's writer panics: the panic reaches the caller (judged: nothing else is returned)
            return None if rec.status == "panic" else "the writer's own panic (after %d bytes) to reach the caller" % fail
        return None if rec.status == "err" else "an error (the writer fails after %d bytes)" % fail
    return expect_val(res, rec, ("b", want))


DESER_LEN = {"fr": (32, 32), "fq12": (576, 576), "g1": (96, 48), "g1a": (96, 48), "g2": (192, 96), "g2a": (192, 96)}


def judge_deser(ctx, rec, res):
    A = rec.args
    ty, data, comp, mode, fail = A[0][1], A[1][1], A[2][1], A[3][1], A[4][1]
    L = DESER_LEN[ty][1 if comp else 0]
    res.evals += 1
    exp_err = None
    val = None
    if len(data) < L:
        exp_err = "truncated input"
    elif 0 <= fail < L:
        exp_err = "reader fails at byte %d" % fail
    else:
        body = data[:L]
        if ty == "fr":
            v = int.from_bytes(body, "big")
            if v >= R:
                exp_err = "non-reduced scalar"
            else:
                val = ("r", v)
        elif ty == "fq12":
            cs = [int.from_bytes(body[i:i + 48], "big") for i in range(0, 576, 48)]
            if any(cc >= Q for cc in cs):
                exp_err = "non-reduced coefficient"
            else:
                val = ("q12", F.f12_from_coeffs(cs))
        else:
            g = 1 if ty.startswith("g1") else 2
            if bool(body[0] & 0x80) != comp:
                exp_err = "compression flag contradicts the data"
            else:
                st, v = EN.decode(g, body, comp, checked=True, subgroup_oracle=sub_oracle)
                if st == "err":
                    exp_err = "rejected encoding (%s)" % v
                else:
                    val = ("pt", (g, v))
    if mode & 16 and 0 <= fail < L and len(data) >= L:
        return None if rec.status == "panic" else "the reader's own panic (at byte %d) to reach the caller" % fail
    if exp_err is not None:
        return None if rec.status == "err" else "an error: " + exp_err
    if rec.status != "ok":
        return "a value (observed %s %s)" % (rec.status, rec.cat)
    if rec.outs[1] != ("n", L):
        return "exactly %d bytes consumed" % L
    o = rec.outs[0]
    if val[0] == "pt":
        g, P = val[1]
        og, OP = pt(o)
        if og != g or not curve(g).eq(OP, P):
            return "point " + show_pt(P)
        want_proj = ty in ("g1", "g2")
        if (o[0][0] == "p") != want_proj:
            return "a value of type " + ty
        return None
    return None if o == val else repr(val)[:600]


# ---------------------------------------------------------------------------- dispatcher

def judge(ctx, rec, res):
    """Generic judge: panics are violations unless the spec for the op says otherwise."""
    op = rec.op
    if "." in op:
        fam, name = op.split(".", 1)
    else:
        fam, name = "", op
    if fam in ("Tfq", "Tfr", "Tfq2", "Tfq6", "Tfq12", "TQ", "TR"):
        fam = fam[1:]          # the same operation reached through the trait with a generic parameter
    if fam in ("fq", "fr", "fq2", "fq6", "fq12"):
        v = judge_field(ctx, rec, res, fam, name)
    elif fam in ("Q", "R"):
        v = judge_repr(ctx, rec, res, fam, name)
    elif fam in ("g1", "g2"):
        v = judge_curve(ctx, rec, res, 1 if fam == "g1" else 2, name)
    else:
        v = judge_misc(ctx, rec, res, op)
    if v is SKIP:
        return None
    return v
