"""Token syntax shared with the driver: parse log/script tokens into typed Python values and back.

A typed value is a pair (type, payload):
  ('n', int) ('t', bool) ('b', bytes) ('s', str) ('u', None)
  ('q', int) ('r', int) ('Q', int) ('R', int)          field elements / raw representations
  ('q2', (c0,c1)) ('q6', ((..),(..),(..))) ('q12', tower)
  ('p1', (X,Y,Z)) ('a1', (x,y,inf)) ('p2', (X,Y,Z) of Fq2) ('a2', (x,y,inf))
  ('w', [u64...]) ('l', [typed...]) ('D', (w,[digits])) ('T1'/'T2', (w,len)) ('P1'/'P2', is_zero) ('C', idx)
"""
from model import fields as F


def _h(s):
    return int(s, 16)


def hx(v):
    return "%x" % v


def parse(tok):
    i = tok.index(":")
    ty, body = tok[:i], tok[i + 1:]
    if ty == "NC":
        # the driver observed a field element that is not `==` to the canonical element of the same value
        return ("NC", parse(body))
    if ty == "n":
        return ("n", int(body))
    if ty == "t":
        return ("t", body == "1")
    if ty == "b":
        return ("b", bytes.fromhex(body))
    if ty == "s":
        return ("s", body)
    if ty == "u":
        return ("u", None)
    if ty in ("q", "r", "Q", "R"):
        return (ty, _h(body))
    if ty == "q2":
        a = body.split(",")
        return ("q2", (_h(a[0]), _h(a[1])))
    if ty == "q6":
        return ("q6", F.f6_from_coeffs([_h(x) for x in body.split(",")]))
    if ty == "q12":
        return ("q12", F.f12_from_coeffs([_h(x) for x in body.split(",")]))
    if ty == "p1":
        a = body.split(",")
        return ("p1", (_h(a[0]), _h(a[1]), _h(a[2])))
    if ty == "a1":
        a = body.split(",")
        return ("a1", (_h(a[0]), _h(a[1]), a[2] == "1"))
    if ty == "p2":
        a = [_h(x) for x in body.split(",")]
        return ("p2", ((a[0], a[1]), (a[2], a[3]), (a[4], a[5])))
    if ty == "a2":
        a = body.split(",")
        return ("a2", ((_h(a[0]), _h(a[1])), (_h(a[2]), _h(a[3])), a[4] == "1"))
    if ty == "w":
        return ("w", [_h(x) for x in body.split(",")] if body else [])
    if ty == "l":
        return ("l", [parse(x) for x in body.split(";")] if body else [])
    if ty == "D":
        a = body.split(",")
        return ("D", (int(a[0]), [int(x) for x in a[1:]]))
    if ty in ("T1", "T2"):
        a = body.split(",")
        return (ty, (int(a[0]), int(a[1])))
    if ty in ("P1", "P2"):
        return (ty, body == "1")
    if ty == "C":
        return ("C", int(body))
    raise ValueError("unknown token " + tok[:40])


def fmt(v):
    ty, p = v
    if ty == "n":
        return "n:%d" % p
    if ty == "t":
        return "t:%d" % (1 if p else 0)
    if ty == "b":
        return "b:" + p.hex()
    if ty == "s":
        return "s:" + p
    if ty in ("q", "r", "Q", "R"):
        return "%s:%x" % (ty, p)
    if ty == "q2":
        return "q2:%x,%x" % p
    if ty == "q6":
        return "q6:" + ",".join(hx(c) for c in F.f6_coeffs(p))
    if ty == "q12":
        return "q12:" + ",".join(hx(c) for c in F.f12_coeffs(p))
    if ty == "p1":
        return "p1:%x,%x,%x" % p
    if ty == "a1":
        return "a1:%x,%x,%d" % (p[0], p[1], 1 if p[2] else 0)
    if ty == "p2":
        return "p2:%x,%x,%x,%x,%x,%x" % (p[0][0], p[0][1], p[1][0], p[1][1], p[2][0], p[2][1])
    if ty == "a2":
        return "a2:%x,%x,%x,%x,%d" % (p[0][0], p[0][1], p[1][0], p[1][1], 1 if p[2] else 0)
    if ty == "w":
        return "w:" + ",".join(hx(x) for x in p)
    if ty == "l":
        return "l:" + ";".join(fmt(x) if not isinstance(x, str) else x for x in p)
    raise ValueError("cannot format " + ty)


# --- convenience constructors used by the generators -----------------------

def q(v): return ("q", v)
def r(v): return ("r", v)
def RR(v): return ("R", v)
def QQ(v): return ("Q", v)
def n(v): return ("n", v)
def t(v): return ("t", bool(v))
def b(v): return ("b", bytes(v))
def s(v): return ("s", v)
def q2(v): return ("q2", (v[0], v[1]))
def w(*limbs): return ("w", list(limbs))
def lst(items): return ("l", list(items))


def aff(g, P):
    """model point (None | (x,y)) -> affine literal of group g"""
    if g == 1:
        return ("a1", (0, 1, True)) if P is None else ("a1", (P[0], P[1], False))
    return ("a2", ((0, 0), (1, 0), True)) if P is None else ("a2", (P[0], P[1], False))


def proj(g, X, Y, Z):
    return ("p1" if g == 1 else "p2", (X, Y, Z))
